"""Model specifications (plain JSON), a random generator for them and the
builder that turns one into real simprocesd objects.

The specification - not the objects - is what oracles derive route graphs,
budgets and timetables from, and it is the replay artefact.
"""
import random

from . import core

# ---------------------------------------------------------------------------
# profiles: weights / probabilities that bias the generator

BASE_PROFILE = {
    'n_sources': (1, 2), 'n_stages': (2, 7),
    'stage_w': {'handler': 3, 'processor': 4, 'buffer': 3, 'gates': 1.5, 'batcher': 1.0, 'group': 1.2,
                'flow': 0.5, 'nested_group': 0.3},
    'p_fanout': 0.25, 'p_fanin': 0.25,
    'p_resources': 0.35, 'n_resources': (1, 2), 'res_cap': (1, 3),
    'p_batch_source': 0.15,
    'buffer_cap': [1, 1, 2, 3, 4, 8, None], 'buffer_delay': [0, 0, 0, 0.5, 1, 2],
    'cts': [0, 0.5, 1, 1, 1.5, 2, 3, 0.25],
    'src_cts': [0.5, 1, 1, 2, 0.25, 1.5],
    'sink_cts': [0, 0, 0, 0.5, 1, 2],
    'budget': [None, None, 5, 12, 30, 3, 0, 2.5, 0.7 / 0.1, 2.1 / 0.3],     # (non-integral: the part after the last
    #                                                                          whole one is never supplied)
    'horizon': (20, 60), 'p_split': 0.3,
    'script_rate': 0.6,       # expected stimulus ops per 10 time units per eligible target
    'ops_w': {'fail': 2, 'shutdown': 1, 'restore': 2, 'work_order': 2, 'block': 1.5, 'unblock': 1.5,
              'add_capacity': 1, 'adjust_budget': 0.7, 'rewire': 0.3, 'rewire_remove': 0.3, 'offset_cycle': 0.7, 'set_cycle': 0.5,
              'rewire_bad': 0.3, 'scratch_env': 0.5},
    'p_maintainer': 0.6, 'p_ct_script': 0.2, 'p_value_cb': 0.4, 'p_collect': 0.5,
    'values': [0, 0.5, 1, 1.5, 2.25, 3], 'qualities': [1, 0.5, 0.75, 0.25],
    'p_same_instant': 0.3, 'p_initial_value': 0.0, 'p_poke': 0.0, 'p_trace': 0.0, 'p_scheduler': 0.2,
    'max_events': 20000,
    'p_raise_stop': 0.1,
}


def profile(name):
    p = {k: (dict(v) if isinstance(v, dict) else v) for k, v in BASE_PROFILE.items()}
    if name == 'general':
        pass
    elif name == 'blocking':      # C03: tiny buffers, slow sinks, scarce pools
        p['buffer_cap'] = [1, 1, 1, 2, 2, 3]
        p['sink_cts'] = [0, 1, 2, 3, 1.5]
        p['p_resources'] = 0.6
        p['res_cap'] = (1, 2)
        p['ops_w'].update({'add_capacity': 2.5, 'block': 2.5, 'unblock': 2.5, 'adjust_budget': 1.5,
                           'rewire': 0.8, 'rewire_bad': 1.5})
        p['budget'] = [3, 5, 8, 12, None, 0]
        p['p_split'] = 0.5
        p['p_between_rewire'] = 0.6
    elif name == 'buffers':       # C05
        p['stage_w'].update({'buffer': 8, 'batcher': 1.5, 'group': 0.5, 'nested_group': 0, 'rework': 1.2})
        p['p_batch_source'] = 0.35
        p['sink_cts'] = [0, 0.5, 1, 2, 3]
        p['n_stages'] = (2, 6)
    elif name == 'faults':        # C06 / C13
        p['stage_w'].update({'processor': 8, 'handler': 3, 'gates': 0.7, 'group': 0.6, 'batcher': 0.5})
        p['script_rate'] = 1.6
        p['ops_w'].update({'fail': 3, 'shutdown': 2.5, 'restore': 3.5, 'work_order': 3, 'offset_cycle': 1.5,
                           'block': 0.5, 'unblock': 0.5, 'rewire': 0.1})
        p['p_maintainer'] = 0.9
        p['p_ct_script'] = 0.4
        p['p_finish_offset'] = 0.35
        p['ops_w']['create_asset'] = 1.0
        p['p_refuse'] = 0.2
        p['p_raise_finish'] = 0.08
        p['p_raise_stop'] = 0.25
        p['ops_w']['scratch_env'] = 2.0
        p['p_same_instant'] = 0.5
    elif name == 'routing':       # C08
        p['stage_w'].update({'gates': 3.5, 'group': 3.5, 'nested_group': 1.2, 'flow': 1.2, 'batcher': 0.7,
                             'rework': 0.8})
        p['p_fanout'] = 0.45
        p['p_fanin'] = 0.35
        p['n_stages'] = (3, 8)
        p['ops_w'].update({'block': 3, 'unblock': 3})
        p['p_collect'] = 0.9
        p['p_scheduler'] = 0.4
        p['p_flag_gate'] = 0.3
    elif name == 'resources':     # C11 / C10
        p['stage_w'].update({'processor': 9, 'group': 1.5, 'handler': 1, 'buffer': 2, 'res_fanout': 2.5, 'res_series': 2.0})
        p['p_big_pool'] = 0.15
        p['p_setup'] = 0.2
        p['ops_w']['scratch_env'] = 2.0
        p['p_resources'] = 1.0
        p['n_resources'] = (1, 3)
        p['res_cap'] = (1, 3)
        p['ops_w'].update({'add_capacity': 4, 'fail': 2, 'work_order': 2})
        p['n_sources'] = (1, 3)
    elif name == 'resfaults':     # C11 / C03: contention for pools under dense shutdown / failure / work-order scripts
        p['stage_w'].update({'processor': 9, 'group': 1.2, 'handler': 1, 'buffer': 2, 'gates': 0.7, 'batcher': 0.3,
                             'res_fanout': 1.5, 'res_series': 1.0})
        p['p_resources'] = 1.0
        p['n_resources'] = (1, 2)
        p['res_cap'] = (1, 2)
        p['n_sources'] = (1, 3)
        p['script_rate'] = 1.5
        p['ops_w'].update({'fail': 3, 'shutdown': 3, 'restore': 4, 'work_order': 3.5, 'add_capacity': 2.5,
                           'block': 1, 'unblock': 1, 'rewire': 0.1, 'offset_cycle': 0.3})
        p['p_maintainer'] = 0.95
        p['p_stop_in_release_window'] = 0.3
        p['p_same_instant'] = 0.4
    elif name == 'batching':      # C17
        p['stage_w'].update({'batcher': 7, 'buffer': 3, 'group': 0.3, 'nested_group': 0, 'gates': 0.7})
        p['p_batch_source'] = 0.5
        p['p_collect'] = 0.8
        p['ops_w']['bad_history_removal'] = 2.0
    elif name == 'values':        # C16
        p['p_value_cb'] = 0.9
        p['p_maintainer'] = 0.9
        p['p_batch_source'] = 0.25
        p['p_initial_value'] = 0.4
        p['p_poke'] = 0.5
        p['ops_w'].update({'work_order': 4, 'create_asset': 1.5, 'reprice_waiting': 2.5})
        p['p_cost_step'] = 0.6
        p['p_nested_batch'] = 0.6
    elif name == 'records':       # C15
        p['p_maintainer'] = 0.95
        p['p_resources'] = 0.8
        p['p_trace'] = 0.34
        p['p_split'] = 0.5
        p['p_clear_data'] = 0.5
        p['p_scheduler'] = 0.6
        p['p_batch_source'] = 0.25
        p['ops_w'].update({'work_order': 4, 'fail': 3})
        p['stage_w'].update({'buffer': 5, 'processor': 6, 'rework': 1.5})
    else:
        raise ValueError(name)
    return p


PRIOS = [2, 3.5, 6.5, 7.5, 8.5, 10, 11.5, 5.5, 4.5]


def wchoice(rng, weights):
    ks = sorted(weights)
    tot = sum(weights[k] for k in ks)
    x = rng.random() * tot
    for k in ks:
        x -= weights[k]
        if x <= 0:
            return k
    return ks[-1]


def grid_time(rng, hi):
    """A time on the 1/8 grid in [0, hi]."""
    return rng.randrange(0, int(hi * 8) + 1) / 8.0


# ---------------------------------------------------------------------------
# generator

class Gen:
    def __init__(self, rng, prof):
        self.rng = rng
        self.p = prof
        self.items = []
        self.n = 0
        self.frontier = []          # ids whose output still needs a consumer
        self.loops = []             # connections closing a loop, made before the first run
        self.order = {}             # id -> creation index (for DAG-respecting rewires)
        self.resources = {}
        self.in_group = set()

    def nid(self, prefix):
        self.n += 1
        return f'{prefix}{self.n}'

    def add(self, item):
        if 'ct' in item and self.rng.random() < self.p.get('p_np', 0.08):
            item['np'] = True          # the cycle time is handed to the library as a numpy scalar
        if item.get('kind') == 'handler' and self.rng.random() < self.p.get('p_len_dev', 0.1):
            item['len_dev'] = True     # a station subclass that defines __len__ (falsy until its first part)
        self.order[item['id']] = len(self.items)
        self.items.append(item)
        return item['id']

    def pick_ups(self):
        rng = self.rng
        fr = self.frontier
        k = 1
        if len(fr) > 1 and rng.random() < self.p['p_fanin']:
            k = 2
        ups = rng.sample(fr, min(k, len(fr)))
        for u in ups:
            if rng.random() >= self.p['p_fanout']:
                fr.remove(u)
        return ups

    def res_req(self):
        rng = self.rng
        if not self.resources or rng.random() > 0.7:
            return None
        names = sorted(self.resources)
        k = 1 if len(names) == 1 or rng.random() < 0.65 else 2
        req = {}
        for r in rng.sample(names, k):
            req[r] = rng.choice(self.p.get('res_amounts') or [1, 1, 1, 2, 0.5])
            if self.resources[r] and req[r] > self.resources[r]:
                req[r] = self.resources[r] if rng.random() < 0.85 else req[r]
        if rng.random() < 0.05:
            req[rng.choice(names)] = 0
        return req

    def mk_handler(self, ups):
        it = {'id': self.nid('H'), 'kind': 'handler', 'up': ups, 'ct': self.rng.choice(self.p['cts'])}
        if self.rng.random() < self.p['p_initial_value']:
            it['value'] = self.rng.choice([1, 2.5, -3, 10])
        return self.add(it)

    def mk_processor(self, ups):
        rng = self.rng
        it = {'id': self.nid('P'), 'kind': 'processor', 'up': ups, 'ct': rng.choice(self.p['cts']),
              'res': self.res_req()}
        if rng.random() < self.p['p_ct_script']:
            it['ct_script'] = [rng.choice(self.p['cts']) for _ in range(rng.randint(2, 4))]
        if rng.random() < self.p['p_value_cb']:
            it['value_add'] = rng.choice([0.5, 1, -0.25, 2])
        if rng.random() < self.p.get('p_finish_offset', 0.1):
            it['finish_offset'] = [rng.choice([1, 2, 3]), rng.choice([0.5, 1, -0.5, 0.25, -5, float('-inf')])]
        if rng.random() < 0.25:
            it['quality_mul'] = rng.choice([0.5, 1, 0.75])
        if rng.random() < 0.85:
            it['wo'] = {t: [rng.choice([0, 0.5, 1, 2, 3]), rng.choice([0, 0.5, 1, 1, 2]), rng.choice([0, 1, 2.5])]
                        for t in ('x', 'y')}
            if rng.random() < self.p.get('p_cost_step', 0.2):
                it['wo_cost_step'] = rng.choice([0.5, 1, -0.25, 2.5])
        # (else: the library's default work-order duration / capacity / cost of 0)
        if it.get('res') and rng.random() < self.p.get('p_setup', 0):
            it['setup'] = rng.choice([0.25, 0.5, 1])      # a user subclass with a set-up time before processing starts
        if it.get('res') and rng.random() < self.p.get('p_stop_in_release_window', 0):
            it['stop_in_release_window'] = rng.choice([2, 3, 5])
        if rng.random() < self.p.get('p_insert', 0):
            it['insert_part'] = rng.choice([1, 2, 3])     # a hand-made part added to every k-th finished batch
        if it['ct'] > 0 and not it.get('ct_script') and rng.random() < self.p.get('p_raise_finish', 0):
            it['raise_at'] = rng.choice([1, 2, 3, 5, 8])      # user code failing in the finish callback, once
        if rng.random() < self.p.get('p_raise_stop', 0):
            it['raise_shutdown'] = rng.choice([1, 1, 2, 3])     # user code failing in a shutdown callback, once
        if rng.random() < self.p.get('p_raise_stop', 0):
            it['raise_restored'] = rng.choice([1, 1, 2, 3])     # ... in a restored callback, once
        if rng.random() < self.p.get('p_refuse', 0):
            it['refuse'] = rng.choice([1, 2, 2, 3])    # every k-th planned stop is refused by a shutdown callback
        return self.add(it)

    def mk_buffer(self, ups):
        rng = self.rng
        it = {'id': self.nid('B'), 'kind': 'buffer', 'up': ups, 'cap': rng.choice(self.p['buffer_cap']),
              'delay': rng.choice(self.p['buffer_delay'])}
        if rng.random() < self.p.get('p_nosy', 0.3):
            it['nosy'] = True       # a receive callback that reads the buffer's own getters
        if rng.random() < self.p.get('p_trim', 0):
            it['trim'] = rng.choice([1, 2, 3])
        return self.add(it)

    def mk_simple(self, ups, allow=('handler', 'processor', 'buffer')):
        k = self.rng.choice(allow)
        return {'handler': self.mk_handler, 'processor': self.mk_processor, 'buffer': self.mk_buffer}[k](ups)

    def stage(self):
        rng = self.rng
        kind = wchoice(rng, self.p['stage_w'])
        if kind in ('handler', 'processor', 'buffer'):
            ups = self.pick_ups()
            self.frontier.append(self.mk_simple(ups, (kind,)))
        elif kind == 'flow':
            ups = self.pick_ups()
            self.frontier.append(self.add({'id': self.nid('F'), 'kind': 'flow', 'up': ups}))
        elif kind == 'rework':
            # a rework loop made of pass-through devices only: buffer -> gate -> the same buffer
            ups = self.pick_ups()
            b = self.add({'id': self.nid('B'), 'kind': 'buffer', 'up': ups, 'cap': rng.choice([2, 3, 4, 8, None]),
                          'delay': rng.choice(self.p['buffer_delay'])})
            m = rng.choice([2, 3, 4])
            back = self.add({'id': self.nid('G'), 'kind': 'gate', 'up': [b],
                             'pred': {'t': 'rework', 'dev': b, 'm': m, 'again': True}})
            on = self.add({'id': self.nid('G'), 'kind': 'gate', 'up': [b],
                           'pred': {'t': 'rework', 'dev': b, 'm': m, 'again': False}})
            self.frontier.append(self.mk_simple([on]))
            self.loops.append({'t': None, 'prio': 5, 'op': 'rewire', 'target': b, 'new_up': back})
        elif kind == 'res_series':
            # a queue in front of two zero-cycle processors in series that draw on the same pool: finish, release
            # and re-accept of one processor can all fall into one instant
            if not self.resources:
                return self.frontier.append(self.mk_simple(self.pick_ups()))
            ups = self.pick_ups()
            b = self.add({'id': self.nid('B'), 'kind': 'buffer', 'up': ups, 'cap': rng.choice([None, 8, 4]), 'delay': 0})
            r = rng.choice(sorted(self.resources))
            amt = rng.choice([1, 1, 0.5])
            p1 = self.add({'id': self.nid('P'), 'kind': 'processor', 'up': [b], 'ct': 0, 'res': {r: amt}})
            p2 = self.add({'id': self.nid('P'), 'kind': 'processor', 'up': [p1], 'ct': rng.choice([0, 0, 0.5]),
                           'res': {r: amt}})
            self.frontier.append(p2)
        elif kind == 'res_fanout':
            # a pass-through device (plain controller or an accept-all gate) feeding several parallel processors that
            # draw on the same pool, the pool being large enough for all of them at once
            if not self.resources:
                return self.frontier.append(self.mk_simple(self.pick_ups()))
            ups = self.pick_ups()
            if rng.random() < 0.5:
                f = self.add({'id': self.nid('F'), 'kind': 'flow', 'up': ups})
            else:
                f = self.add({'id': self.nid('G'), 'kind': 'gate', 'up': ups, 'pred': {'t': 'always'}})
            r = rng.choice(sorted(self.resources))
            k = rng.choice([2, 2, 3])
            cts = [rng.choice([2, 3, 4])] + [rng.choice([0.25, 0.5, 1]) for _ in range(k - 1)]
            if rng.random() < 0.3:
                rng.shuffle(cts)
            if rng.random() < 0.8:
                self.resources[r] = max(self.resources[r], k)
            ends = []
            for ct in cts:
                it = {'id': self.nid('P'), 'kind': 'processor', 'up': [f], 'ct': ct, 'res': {r: 1}}
                if rng.random() < 0.5:
                    it['wo'] = {t: [rng.choice([0, 0.5, 1, 2]), rng.choice([0, 1]), 0] for t in ('x', 'y')}
                ends.append(self.add(it))
            if rng.random() < 0.6:
                self.frontier.append(self.mk_simple(ends, ('handler', 'buffer')))
            else:
                self.frontier.extend(ends)
        elif kind == 'gates':
            ups = self.pick_ups()
            t = rng.choice(['seq_mod', 'seq_mod', 'value_ge', 'total'])
            if self.p.get('p_flag_gate') and rng.random() < self.p['p_flag_gate']:
                t = 'flag'          # decides on a user attribute of the part that the script flips while parts wait
                self.has_flag_gate = True
            if t == 'total':
                g = self.add({'id': self.nid('G'), 'kind': 'gate', 'up': ups, 'pred': {'t': 'always'}})
                self.frontier.append(self.mk_simple([g]))
                return
            if t == 'flag':
                preds = [{'t': 'flag', 'want': False}, {'t': 'flag', 'want': True}]
            elif t == 'seq_mod':
                m = rng.choice([2, 3])
                preds = [{'t': 'seq_mod', 'm': m, 'r': [r for r in range(m) if r % 2 == 0]},
                         {'t': 'seq_mod', 'm': m, 'r': [r for r in range(m) if r % 2 == 1]}]
            else:
                th = rng.choice([0.5, 1, 1.5, 2])
                preds = [{'t': 'value_ge', 'th': th}, {'t': 'value_lt', 'th': th}]
            ends = []
            sub = rng.random() < 0.3
            for pr in preds:
                g = self.add({'id': self.nid('G'), 'kind': 'gate', 'up': list(ups), 'pred': pr, 'subclass': sub})
                ends.append(self.mk_simple([g]))
            if rng.random() < 0.5:
                self.frontier.append(self.mk_simple(ends))          # merge again
            else:
                self.frontier.extend(ends)
        elif kind == 'batcher':
            ups = self.pick_ups()
            size = rng.choice([None, 1, 2, 3, 4, 6])
            b = self.add({'id': self.nid('T'), 'kind': 'batcher', 'up': ups, 'size': size})
            if rng.random() < 0.5:
                mid = self.mk_simple([b])
                if rng.random() < 0.6:
                    b2 = self.add({'id': self.nid('T'), 'kind': 'batcher', 'up': [mid],
                                   'size': rng.choice([None, None, 2, 3])})
                    self.frontier.append(b2)
                else:
                    self.frontier.append(mid)
            else:
                self.frontier.append(b)
        elif kind == 'group':
            self.group_stage(nested=False)
        elif kind == 'nested_group':
            self.group_stage(nested=True)

    def group_chain(self, length):
        """Members of a group: a closed chain, first one without upstream."""
        ids = []
        prev = None
        for _ in range(length):
            i = self.mk_simple([prev] if prev else [], ('handler', 'processor', 'processor', 'buffer'))
            ids.append(i)
            prev = i
        self.in_group.update(ids)
        return ids

    def group_stage(self, nested):
        rng = self.rng
        if not nested and rng.random() < 0.2:
            # group with two parallel input devices feeding a common output device (input_override)
            a = self.mk_simple([], ('handler', 'processor'))
            b = self.mk_simple([], ('handler', 'processor', 'buffer'))
            c = self.mk_simple([a, b], ('handler', 'processor', 'buffer'))
            members = [a, b, c]
            self.in_group.update(members)
            gid = self.add({'id': self.nid('GR'), 'kind': 'group', 'members': members, 'inputs': [a, b]})
        elif not nested and rng.random() < 0.15:
            # one input device, two parallel output devices (output_override)
            a = self.mk_simple([], ('handler', 'processor', 'buffer'))
            b = self.mk_simple([a], ('handler', 'processor'))
            c = self.mk_simple([a], ('handler', 'processor', 'buffer'))
            members = [a, b, c]
            self.in_group.update(members)
            gid = self.add({'id': self.nid('GR'), 'kind': 'group', 'members': members, 'outputs': [b, c]})
        elif not nested:
            members = self.group_chain(rng.choice([1, 1, 2, 3]))
            gid = self.add({'id': self.nid('GR'), 'kind': 'group', 'members': members})
        else:
            inner_members = self.group_chain(rng.choice([1, 2]))
            g1 = self.add({'id': self.nid('GR'), 'kind': 'group', 'members': inner_members})
            x = self.mk_simple([], ('handler', 'processor'))
            ip = self.add({'id': self.nid('GP'), 'kind': 'path', 'group': g1, 'up': [x]})
            members = [x, ip]
            if rng.random() < 0.5:
                members.append(self.mk_simple([ip], ('handler', 'processor', 'buffer')))
            self.in_group.update(members)
            gid = self.add({'id': self.nid('GR'), 'kind': 'group', 'members': members})
        npaths = rng.choice([1, 2, 2, 3])
        prev_path = None
        for k in range(npaths):
            if prev_path is not None and rng.random() < 0.35:
                # re-entrant: the part comes back into the same group, directly or via a device
                if rng.random() < 0.5:
                    ups = [prev_path]
                else:
                    ups = [self.mk_simple([prev_path])]
                if prev_path in self.frontier:
                    self.frontier.remove(prev_path)
            else:
                if not self.frontier:
                    break
                ups = self.pick_ups()
            pth = self.add({'id': self.nid('GP'), 'kind': 'path', 'group': gid, 'up': ups})
            self.frontier.append(pth)
            prev_path = pth

    def generate(self, seed):
        rng = self.rng
        p = self.p
        self.seed = seed
        if rng.random() < p['p_resources']:
            for k in range(rng.randint(*p['n_resources'])):
                self.resources[f'r{k}'] = rng.randint(*p['res_cap'])
            if rng.random() < 0.15:
                # a pool whose capacity schedule starts at 0: it does not exist until its first rise
                self.resources[rng.choice(sorted(self.resources))] = 0
            if rng.random() < p.get('p_big_pool', 0):
                # an unlimited pool, or one so large that a float cannot tell capacity from capacity - 1
                self.resources[rng.choice(sorted(self.resources))] = rng.choice([float('inf'), 1e16, 2.0 ** 60])
        for _ in range(rng.randint(*p['n_sources'])):
            ct = rng.choice(p['src_cts'])
            budget = rng.choice(p['budget'])
            if rng.random() < 0.12:
                ct = 0
                budget = budget or rng.choice([4, 9])         # Zeno rule: ct > 0 or finite budget
            it = {'id': self.nid('S'), 'kind': 'source', 'ct': ct, 'budget': budget,
                  'values': [rng.choice(p['values']) for _ in range(rng.randint(1, 4))],
                  'qualities': [rng.choice(p['qualities']) for _ in range(rng.randint(1, 3))]}
            if rng.random() < p.get('p_falsy', 0.12):
                it['falsy'] = True          # its parts are instances of a Part subclass whose __len__ is 0
            if rng.random() < p['p_batch_source']:
                it['batch'] = [rng.choice([0, 1, 2, 3, 3, 5, 7]) for _ in range(rng.randint(1, 4))]
                if rng.random() < 0.3:
                    it['batch_append'] = True   # batches made empty and filled through Batch.parts
                elif rng.random() < 0.35:
                    it['batch_sub'] = True      # the generator makes instances of a user-defined subclass of Batch
                elif rng.random() < p.get('p_nested_batch', 0):
                    it['batch_nested'] = True   # ... or pallets of boxes (a Batch of Batches)
            self.frontier.append(self.add(it))
        for _ in range(rng.randint(*p['n_stages'])):
            if not self.frontier:
                break
            self.stage()
        # sinks: every open end gets a consumer
        nsinks = 1 if len(self.frontier) < 2 or rng.random() < 0.6 else 2
        groups = [[] for _ in range(nsinks)]
        for i, f in enumerate(self.frontier):
            groups[i % nsinks].append(f)
        for ups in groups:
            if ups:
                k_id = self.add({'id': self.nid('K'), 'kind': 'sink', 'up': ups, 'ct': rng.choice(p['sink_cts']),
                                 'collect': rng.random() < p['p_collect']})
                if p.get('p_sink_fee') and rng.random() < p['p_sink_fee']:
                    next(x for x in self.items if x['id'] == k_id)['fee'] = rng.choice([0.5, 0.25, 1])
        maint = None
        if rng.random() < p['p_maintainer']:
            mi = {'id': self.nid('M'), 'kind': 'maintainer', 'cap': rng.choice([None, 1, 1, 2, 0.5, 3])}
            if rng.random() < p['p_initial_value']:
                mi['value'] = rng.choice([5, 100, -2.5])
            maint = self.add(mi)
        if rng.random() < p['p_scheduler']:
            # an operating schedule that blocks / unblocks the input of one or two devices
            cands = [i['id'] for i in self.items if i['kind'] in ('handler', 'processor', 'buffer', 'gate', 'flow',
                                                                   'path', 'batcher', 'sink')]
            if cands:
                sid = self.add({'id': self.nid('AS'), 'kind': 'scheduler',
                          'timetable': [[rng.choice([1, 2, 3, 0.5, 4, 0]), True], [rng.choice([0.5, 1, 2, 0]), False]]
                          + ([[rng.choice([1, 2]), True]] if rng.random() < 0.3 else []),
                          'cyclical': rng.choice([True, True, None, False]),
                          'targets': rng.sample(cands, min(len(cands), rng.choice([1, 1, 2])))})
                tt_ = next(x for x in self.items if x['id'] == sid)['timetable']
                if sum(d for d, _s in tt_) == 0:
                    tt_[1][0] = 1          # (a cycle of total length 0 would never leave its instant)
        horizon = float(rng.randint(*p['horizon']))
        segs = [horizon]
        if rng.random() < p['p_split']:
            k = rng.choice([2, 3])
            cuts = sorted(grid_time(rng, horizon) for _ in range(k - 1))
            pts = [0.0] + cuts + [horizon]
            segs = [b - a for a, b in zip(pts, pts[1:]) if b - a > 0]
        spec = {'resources': self.resources, 'items': self.items, 'horizon': segs,
                'tie': 'prng', 'seed': seed, 'max_events': p['max_events']}
        fin = [it for it in self.items if it['kind'] == 'source' and it.get('budget') and it['ct'] > 0]
        aimed_between = None
        if fin and rng.random() < p.get('p_split_at_spare_part', 0.15):
            it = rng.choice(fin)
            t = (int(it['budget']) + 1) * it['ct']
            if 0 < t < horizon:
                segs = [t, horizon - t]
                aimed_between = {'t': None, 'prio': 5, 'op': 'adjust_budget', 'target': it['id'], 'n': rng.choice([1, 2])}
        spec['horizon'] = segs
        spec['script'] = self.script(horizon, maint)
        if len(segs) >= 2 and self.rand_op is not None and (aimed_between or rng.random() < p.get('p_between', 0.6)):
            # operations issued by ordinary code BETWEEN two simulate() calls (not from an event)
            spec['between'] = []
            for _ in range(len(segs) - 1):
                gap = [aimed_between] if aimed_between else []
                for _ in range(rng.choice([1, 1, 2, 3])):
                    e = self.rand_op(None)
                    if e is not None:
                        gap.append(e)
                if len(self.free_devices) >= 2 and rng.random() < p.get('p_between_rewire', 0.25):
                    e = self.rand_op(None, 'rewire')         # a connection added between two runs
                    if e is not None:
                        gap.append(e)
                if rng.random() < 0.3:
                    # the clock is also moved by direct use of the public Environment between the runs
                    gap.insert(rng.randrange(len(gap) + 1),
                               rng.choice([{'t': None, 'prio': 5, 'op': 'env_run', 'd': rng.choice([0.5, 1, 2.5])},
                                           {'t': None, 'prio': 5, 'op': 'env_step', 'n': rng.choice([1, 3, 7])}]))
                spec['between'].append(gap)
        if len(segs) >= 2 and rng.random() < p.get('p_clear_data', 0):
            bt = spec.setdefault('between', [[] for _ in range(len(segs) - 1)])
            rng.choice(bt).append({'t': None, 'prio': 5, 'op': 'clear_data',
                                   'label': rng.choice([None, None, 'level', 'received_part', 'resource_update',
                                                        'supplied_new_part'])})
        if p.get('p_new_collected') and rng.random() < p['p_new_collected']:
            # fresh collected_parts lists for the sinks: between two runs, or from an event
            e = {'t': None, 'prio': 5, 'op': 'new_collected'}
            if len(segs) >= 2 and rng.random() < 0.6:
                bt = spec.setdefault('between', [[] for _ in range(len(segs) - 1)])
                rng.choice(bt).append(e)
            else:
                spec['script'] = sorted(spec['script'] + [dict(e, t=grid_time(rng, horizon * 0.7), prio=rng.choice(PRIOS))],
                                        key=lambda x: x['t'])
        if len(segs) >= 2 and rng.random() < p.get('p_zero_run', 0.25):
            # a zero-length simulate() call right after operations that schedule events for the current instant
            k = rng.randrange(len(segs) - 1)
            bt = spec.setdefault('between', [[] for _ in range(len(segs) - 1)])
            procs_ = [i['id'] for i in self.items if i['kind'] == 'processor']
            if procs_:
                bt[k].append({'t': None, 'prio': 5, 'op': 'fail', 'target': rng.choice(procs_)})
            segs.insert(k + 1, 0)
            bt.insert(k + 1, [])
        if rng.random() < p.get('p_pre', 0.25):
            # operations issued by ordinary code between construction and the FIRST simulate() call
            pre = []
            fin1 = [i for i in self.items if i['kind'] == 'source' and (i.get('budget') or 0) >= 1]
            if fin1 and rng.random() < 0.7:
                it = rng.choice(fin1)
                pre.append({'t': None, 'prio': 5, 'op': 'adjust_budget', 'target': it['id'],
                            'n': rng.choice([-1, -2, -3, -int(it['budget']), 2, 4])})
            if self.rand_op is not None:
                for k in ('block', 'set_cycle', 'unblock'):
                    if rng.random() < 0.3:
                        try:
                            e = self.rand_op(None, k)
                        except (IndexError, ValueError):
                            e = None
                        if e is not None:
                            pre.append(e)
            if pre:
                spec['pre'] = pre
        if self.loops:
            spec['pre'] = list(self.loops) + (spec.get('pre') or [])
        if rng.random() < p.get('p_observe', 0.3):
            spec['observe'] = rng.choice([1, 3, 7])       # a nosy user reads every getter at every k-th event
        if rng.random() < p['p_poke']:
            cands = [i['id'] for i in self.items if i['kind'] not in ('group',)]
            spec['poke'] = rng.sample(cands, min(len(cands), rng.choice([1, 2, 3])))
        if rng.random() < p['p_trace']:
            spec['trace'] = [rng.random() < 0.7 for _ in segs]
        return spec

    def script(self, horizon, maint):
        rng = self.rng
        p = self.p
        procs = [i['id'] for i in self.items if i['kind'] == 'processor']
        # processors that need resources are the interesting fault targets when pools are in play
        res_procs = [i['id'] for i in self.items if i['kind'] == 'processor' and i.get('res')]
        if res_procs:
            procs = procs + res_procs * 2
        handlers = [i['id'] for i in self.items if i['kind'] in ('handler', 'processor', 'sink')]
        blockable = [i['id'] for i in self.items if i['kind'] in ('handler', 'processor', 'buffer', 'gate',
                                                                    'flow', 'path', 'sink', 'batcher')]
        sources = [i['id'] for i in self.items if i['kind'] == 'source']
        free = [i['id'] for i in self.items if i['kind'] in ('handler', 'processor', 'buffer', 'sink')
                and i['id'] not in self.in_group]
        cyclers = [i['id'] for i in self.items if i['kind'] in ('handler', 'processor', 'sink')]
        late_path_targets = [i['id'] for i in self.items if i['kind'] in ('handler', 'processor', 'buffer')
                             and i['id'] not in self.in_group]
        ops = []
        n_ops = int(p['script_rate'] * horizon / 10.0 * max(1, len(procs)) * rng.uniform(0.3, 1.5))
        n_ops = min(n_ops, 60)
        w = dict(p['ops_w'])
        if not procs:
            for k in ('fail', 'shutdown', 'restore', 'work_order'):
                w.pop(k, None)
        if not maint:
            w.pop('work_order', None)
        if not self.resources:
            w.pop('add_capacity', None)
        if not handlers:
            w.pop('offset_cycle', None)
        if not cyclers:
            w.pop('set_cycle', None)
        if not late_path_targets or not p.get('p_late_path'):
            w.pop('late_path', None)
        elif 'late_path' not in w:
            w['late_path'] = p['p_late_path']
        if len(free) < 2:
            w.pop('rewire', None)
            w.pop('rewire_remove', None)
        if not free:
            w.pop('rewire_bad', None)
        if getattr(self, 'has_flag_gate', False):
            w['flag_waiting'] = 12
        for it in self.items:
            # a top-up at exactly the instant at which the exhausted source's spare part is ready (an unblocked
            # source supplies its k-th part at k * cycle time; the next one is ready one cycle later)
            if it['kind'] == 'source' and it.get('budget') and it['ct'] > 0 and rng.random() < 0.5:
                t = (int(it['budget']) + 1) * it['ct']
                if t <= horizon:
                    ops.append({'t': t, 'prio': rng.choice(PRIOS), 'op': 'adjust_budget', 'target': it['id'],
                                'n': rng.choice([1, 2, 3])})
        for it in self.items:
            # the remaining budget withdrawn completely and given back later (possibly while the source is blocked)
            if it['kind'] == 'source' and it.get('budget') and rng.random() < 0.35:
                t1 = grid_time(rng, horizon * 0.7)
                ops.append({'t': t1, 'prio': rng.choice(PRIOS), 'op': 'adjust_budget', 'target': it['id'],
                            'n': -int(it['budget']) - 5})
                ops.append({'t': min(horizon, t1 + rng.choice([0.5, 1, 2, 4, 8])), 'prio': rng.choice(PRIOS),
                            'op': 'adjust_budget', 'target': it['id'], 'n': rng.choice([2, 3, 6])})
        for it in self.items:
            if it['kind'] == 'source' and it.get('budget') == 0:
                ops.append({'t': grid_time(rng, horizon / 2.0), 'prio': rng.choice(PRIOS), 'op': 'adjust_budget',
                            'target': it['id'], 'n': rng.choice([2, 4, 7])})
        for r, c in sorted(self.resources.items()):
            if c == 0:
                ops.append({'t': grid_time(rng, horizon / 3.0), 'prio': rng.choice(PRIOS), 'op': 'add_capacity',
                            'res': r, 'amount': rng.choice([1, 2, 3])})
        def rand_op(t, force=None):
            op = force or wchoice(rng, w)
            e = {'t': t, 'prio': rng.choice(PRIOS), 'op': op}
            if op in ('fail', 'shutdown', 'restore'):
                e['target'] = rng.choice(procs)
            elif op == 'work_order':
                e['target'] = rng.choice(procs)
                e['maint'] = maint
                e['tag'] = rng.choice(['x', 'y'])
            elif op in ('block', 'unblock'):
                e['target'] = rng.choice(blockable)
            elif op == 'add_capacity':
                e['res'] = rng.choice(sorted(self.resources))
                e['amount'] = rng.choice([1, 1, -1, -1, 2, -2, 0.5, -0.5])
            elif op == 'adjust_budget':
                e['target'] = rng.choice(sources)
                e['n'] = rng.choice([1, 2, 3, 5, -1, -2])
            elif op == 'offset_cycle':
                e['target'] = rng.choice(handlers)
                e['offset'] = rng.choice([0.5, 1, -0.5, -1, -5, 0.25, float('-inf')])     # -inf: skip processing
            elif op == 'set_cycle':
                e['target'] = rng.choice(cyclers)
                e['ct'] = rng.choice([0, 0, 0.5, 1, 2, 0.25])
            elif op == 'scratch_env':
                e['with_minus_one'] = rng.random() < 0.3
                if self.resources and rng.random() < 0.7:
                    e['pools'] = sorted(self.resources)
            elif op == 'reprice_waiting':
                e['delta'] = rng.choice([0.5, 1, -0.25, 2.5, -1])
            elif op == 'late_path':
                if not late_path_targets:
                    return None
                e['target'] = rng.choice(late_path_targets)
                e['ct'] = rng.choice([0, 0.5, 1])
            elif op == 'create_asset':
                e['what'] = rng.choice(['maintainer', 'handler', 'processor'])
                e['value'] = rng.choice([10, -2.5, 100, 0.5, 0])
            elif op == 'rewire_remove':
                multi = [i['id'] for i in self.items if i['id'] in free and len(i.get('up', [])) >= 2]
                if not multi:
                    return None
                e['target'] = rng.choice(multi)
                e['k'] = rng.randrange(3)
            elif op == 'rewire_bad':
                withup = [i['id'] for i in self.items if i['id'] in free and i.get('up')]
                if not withup:
                    return None
                e['target'] = rng.choice(withup)
                e['bad'] = rng.choice(['not_a_device', 'self'])
                e['form'] = rng.choice(['bad_first', 'bad_only', 'bad_last'])
            elif op == 'rewire':
                a, b = rng.sample(free, 2)
                if self.order[a] > self.order[b]:
                    a, b = b, a
                if next(i for i in self.items if i['id'] == a)['kind'] == 'sink':
                    return None
                e['target'] = b           # b gets a as an additional upstream
                e['new_up'] = a
            return e
        self.rand_op = rand_op if w else None
        self.free_devices = free
        last_t = None
        for _ in range(n_ops):
            if not w:
                break
            t = grid_time(rng, horizon)
            if last_t is not None and rng.random() < p['p_same_instant']:
                t = last_t
            last_t = t
            e = rand_op(t)
            if e is not None:
                ops.append(e)
        # a failure requested while the machine is already shut down for maintenance (a FAIL event scheduled
        # earlier would have been paused with the machine's other events)
        for e in list(ops):
            if e['op'] in ('shutdown', 'work_order') and rng.random() < 0.3:
                ops.append({'t': min(horizon, e['t'] + rng.choice([0, 0.25, 0.5, 1, 1.5])), 'prio': rng.choice(PRIOS),
                            'op': 'fail', 'target': e['target']})
        # a failure is usually followed by a restore some time later (else the line just dies)
        for e in list(ops):
            if e['op'] in ('fail', 'shutdown') and rng.random() < 0.8:
                ops.append({'t': min(horizon, e['t'] + rng.choice([0, 0.5, 1, 2, 4])), 'prio': rng.choice(PRIOS),
                            'op': 'restore', 'target': e['target']})
            if e['op'] == 'block' and rng.random() < 0.85:
                ops.append({'t': min(horizon, e['t'] + rng.choice([0, 0.5, 1, 3, 6])), 'prio': rng.choice(PRIOS),
                            'op': 'unblock', 'target': e['target']})
        # the pending transition of an operating schedule frozen for a while (Environment.pause_matching_events on the
        # scheduler's id) and released later: the state change happens - and is recorded - when it actually happens
        # (own generator, so that the models drawn from the main stream stay what they were)
        r2 = random.Random(f'{getattr(self, "seed", 0)}/sched_pause')
        for it in self.items:
            if it['kind'] == 'scheduler' and r2.random() < p.get('p_sched_pause', 0.3):
                t1 = grid_time(r2, horizon * 0.8)
                ops.append({'t': t1, 'prio': r2.choice(PRIOS), 'op': 'sched_pause', 'sched': it['id']})
                ops.append({'t': min(horizon, t1 + r2.choice([0.25, 0.75, 1.5, 3, 0])), 'prio': r2.choice(PRIOS),
                            'op': 'sched_resume', 'sched': it['id']})
        # an operating schedule that also lists the SOURCE among the devices whose input it closes and reopens
        # (block_input on a source closes nothing - it has no input - and reopening it must change nothing either)
        for it in self.items:
            if it['kind'] == 'source' and r2.random() < p.get('p_block_source', 0):
                for _ in range(r2.choice([1, 2, 3])):
                    t1 = grid_time(r2, horizon * 0.9)
                    ops.append({'t': t1, 'prio': r2.choice(PRIOS), 'op': 'block', 'target': it['id']})
                    ops.append({'t': min(horizon, t1 + r2.choice([0.5, 1, 2.5, 6])), 'prio': r2.choice(PRIOS),
                                'op': 'unblock', 'target': it['id']})
        ops.sort(key=lambda e: e['t'])
        return ops


def generate(seed, profile_name, tie=None, overrides=None, catching=False):
    """catching: the engine that will run the model catches exceptions thrown on purpose by workload callbacks and
    carries on (only engine_line does); otherwise no such callbacks are generated."""
    rng = random.Random(core.stable_int('model', seed, profile_name))
    prof = profile(profile_name)
    if overrides:
        prof.update(overrides)
    if not catching:
        prof['p_raise_finish'] = 0
        prof['p_raise_stop'] = 0
    spec = Gen(rng, prof).generate(seed)
    spec['profile'] = profile_name
    if prof.get('p_pre_offset'):
        # one-shot offsets requested after the model was built and before its first run (a warm-up, a first set-up);
        # own PRNG stream, so the model itself stays what it was
        orng = random.Random(core.stable_int('preoffset', seed, profile_name))
        for it in spec['items']:
            if it['kind'] in ('handler', 'processor', 'sink') and orng.random() < prof['p_pre_offset']:
                it['pre_offset'] = orng.choice([0.5, 1, 2.5, 4, -0.25, 0.125])
    if overrides and overrides.get('decimal'):
        spec['decimal'] = True
    if tie:
        spec['tie'] = tie
    return spec


# ---------------------------------------------------------------------------
# predicates (pure functions of the part, as DecisionGate's warning demands)

def part_seq(part):
    """Generator sequence number of a part; for a batch, of its first leaf."""
    s = getattr(part, 'hseq', None)
    if s is not None:
        return s
    parts = getattr(part, 'parts', None)
    if parts:
        return part_seq(parts[0])
    return 0


def eval_pred(pred, part, gate=None):
    t = pred['t']
    if t == 'rework':
        # every m-th part goes once more through the buffer right upstream of the gate
        buf = gate.upstream[0] if gate is not None else None
        visits = sum(1 for d in part.routing_history if d is buf or (buf is None and d.name == pred['dev']))
        again = part_seq(part) % pred['m'] == 0 and visits < 2
        return again == pred['again']
    if t == 'always':
        return True
    if t == 'seq_mod':
        return part_seq(part) % pred['m'] in pred['r']
    if t == 'value_ge':
        return part.value >= pred['th']
    if t == 'value_lt':
        return part.value < pred['th']
    if t == 'flag':
        return bool(getattr(part, 'h_flag', False)) == pred['want']
    if t == 'raise_once':
        return True          # (the failure itself is raised by Pred, once)
    raise ValueError(t)


GATE_LOG = None      # set by the builder: list of (gate name, part, result) evaluations


class Pred:
    """Callable gate predicate (picklable, deep-copyable)."""

    def __init__(self, pred):
        self.pred = pred

    def __call__(self, gate, part):
        if self.pred['t'] == 'raise_once' and not getattr(self, 'fired', False) and part_seq(part) == self.pred['k']:
            from . import instrument
            if not instrument.PROBING:
                self.fired = True
                from .build import HarnessError
                raise HarnessError('the decider failed')
        r = eval_pred(self.pred, part, gate)
        if GATE_LOG is not None:
            from . import instrument
            if not instrument.PROBING:
                GATE_LOG.append((gate.name, part, r))
        return r


def generate_error_buffer(seed, tie='prng'):
    """User code failing in the middle of a multi-part release: source -> buffer -> gate -> 1-2 handlers -> sink,
    the handlers' inputs blocked at first so that the buffer fills; when they open, the buffer hands over one part
    per free handler in ONE event and the gate's decider raises for the next part.  The caller catches the
    exception that comes out of simulate() and carries on."""
    rng = random.Random(core.stable_int('errbuf', seed))
    nrecv = rng.choice([1, 1, 2])
    items = [{'id': 'S1', 'kind': 'source', 'ct': rng.choice([0.25, 0.5, 1]), 'budget': None, 'values': [1],
              'qualities': [1]},
             {'id': 'B2', 'kind': 'buffer', 'up': ['S1'], 'cap': rng.choice([3, 4, 6, 10]), 'delay': rng.choice([0, 0, 0.5])},
             {'id': 'G3', 'kind': 'gate', 'up': ['B2'], 'pred': {'t': 'raise_once', 'k': nrecv + 1}}]
    ends = []
    for k in range(nrecv):
        h = f'H{4 + k}'
        items.append({'id': h, 'kind': 'handler', 'up': ['G3'], 'ct': rng.choice([0.5, 1, 2])})
        ends.append(h)
    items.append({'id': 'K9', 'kind': 'sink', 'up': ends, 'ct': 0, 'collect': True})
    t_open = rng.choice([3, 4.5, 6, 8])
    script = []
    for h in ends:
        script.append({'t': t_open, 'prio': 10, 'op': 'unblock', 'target': h})
    # (both handlers must be open before the buffer's release event runs: the gate is opened last)
    script.append({'t': t_open, 'prio': 9, 'op': 'unblock', 'target': 'G3'})
    pre = [{'t': None, 'prio': 5, 'op': 'block', 'target': x} for x in ends + ['G3']]
    return {'resources': {}, 'items': items, 'horizon': [float(rng.choice([20, 30]))], 'script': script, 'pre': pre,
            'tie': tie, 'seed': seed, 'max_events': 20000, 'profile': 'error_buffer'}


def generate_pool_race(seed, tie='prng'):
    """A set-up station holds two (or three) pools and gives them back at one instant; one machine per pool has been
    waiting for it, and all of them also need the single unit of a further pool: whoever is called back first gets it.
    The order is the order of registration - never that of a hash table."""
    rng = random.Random(core.stable_int('race', seed))
    k = rng.choice([2, 2, 3])
    names = rng.sample(['crane', 'forklift', 'jig', 'ra', 'rb', 'press', 'oven', 'tool'], k)
    shared = 'operator'
    resources = {n: 1 for n in names}
    resources[shared] = 1
    items = [{'id': 'S0', 'kind': 'source', 'ct': 0, 'budget': rng.choice([1, 2]), 'values': [1], 'qualities': [1]},
             {'id': 'P0', 'kind': 'processor', 'up': ['S0'], 'ct': rng.choice([2, 3]), 'res': {n: 1 for n in names}},
             {'id': 'K0', 'kind': 'sink', 'up': ['P0'], 'ct': 0, 'collect': False}]
    order = list(range(k))
    rng.shuffle(order)
    for j in order:
        items.append({'id': f'S{j + 1}', 'kind': 'source', 'ct': rng.choice([0.5, 1]), 'budget': None, 'values': [1],
                      'qualities': [1]})
        items.append({'id': f'P{j + 1}', 'kind': 'processor', 'up': [f'S{j + 1}'], 'ct': rng.choice([1, 1.5]),
                      'res': {names[j]: 1, shared: 1}})
        items.append({'id': f'K{j + 1}', 'kind': 'sink', 'up': [f'P{j + 1}'], 'ct': 0, 'collect': False})
    return {'resources': resources, 'items': items, 'horizon': [float(rng.choice([12, 20]))], 'script': [], 'tie': tie,
            'seed': seed, 'max_events': 20000, 'profile': 'pool_race'}


def generate_late_merge(seed, tie='prng'):
    """Two to four feeders that have no customer yet (each holds its first part, blocked) are connected to one
    single-slot station by ONE set_upstream() call while the line is running: all of them offer
    at that instant and the tie-break decides.  The order in which they are linked is the order of the list."""
    rng = random.Random(core.stable_int('latemerge', seed))
    k = rng.choice([2, 2, 3, 4])
    items = []
    filler = rng.choice([0, 0, 1, 2])       # unrelated assets created between the feeders (gaps in the ids)
    for j in range(k):
        items.append({'id': f'S{j}', 'kind': 'source', 'ct': rng.choice([0, 0.5, 1]), 'budget': rng.choice([2, 3, 5]),
                      'values': [1], 'qualities': [1]})
        for f in range(filler if j + 1 < k else 0):
            items.append({'id': f'X{j}_{f}', 'kind': 'source', 'ct': 1, 'budget': 0, 'values': [1], 'qualities': [1]})
    own = rng.random() < 0.4
    if own:
        items.append({'id': 'S9', 'kind': 'source', 'ct': 1, 'budget': 3, 'values': [1], 'qualities': [1]})
    items.append({'id': 'P0', 'kind': rng.choice(['handler', 'processor']), 'up': ['S9'] if own else [],
                  'ct': rng.choice([1, 1.5, 2]), 'res': None})
    items.append({'id': 'K0', 'kind': 'sink', 'up': ['P0'], 'ct': 0, 'collect': True})
    order = [f'S{j}' for j in range(k)]
    if rng.random() < 0.5:
        rng.shuffle(order)
    total = float(rng.choice([12, 16, 24]))
    t = rng.choice([1.5, 2.25, 4, 6.5])
    script = [{'t': t, 'prio': rng.choice([5, 10.5, 3.5]), 'op': 'rewire_many', 'target': 'P0', 'new_ups': order,
               'front': rng.random() < 0.3}]
    spec = {'resources': {}, 'items': items, 'horizon': [total], 'script': script, 'tie': tie, 'seed': seed,
            'max_events': 20000, 'default_names': rng.random() < 0.5, 'profile': 'late_merge'}
    return spec


def generate_shared_cell(seed, tie='prng'):
    """Two or three sources that always compete for one shared cell (a group with a single slow machine), each through
    its own, default-named path to its own sink."""
    rng = random.Random(core.stable_int('cell', seed))
    n = rng.choice([2, 2, 3])
    ct = rng.choice([0.5, 1])
    items = []
    for k in range(n):
        items.append({'id': f'S{k}', 'kind': 'source', 'ct': ct, 'budget': None, 'values': [1], 'qualities': [1]})
    items.append({'id': 'M', 'kind': rng.choice(['handler', 'processor']), 'up': [], 'ct': ct * rng.choice([1, 1.5, 2]),
                  'res': None})
    items.append({'id': 'CELL', 'kind': 'group', 'members': ['M']})
    for k in range(n):
        items.append({'id': f'GP{k}', 'kind': 'path', 'group': 'CELL', 'up': [f'S{k}']})
    for k in range(n):
        items.append({'id': f'K{k}', 'kind': 'sink', 'up': [f'GP{k}'], 'ct': 0, 'collect': False})
    return {'resources': {}, 'items': items, 'horizon': [float(rng.choice([20, 30]))], 'script': [], 'tie': tie,
            'seed': seed, 'max_events': 20000, 'default_names': True, 'profile': 'shared_cell'}


def generate_conwip(seed, tie='prng'):
    """source -> buffer -> station -> sink where the station's receive callback puts a hand-made job into the buffer it
    has just taken a part from (Buffer.give_part called in the middle of the buffer's release); long enough for a few
    hundred releases."""
    rng = random.Random(core.stable_int('conwip', seed))
    ct = rng.choice([0.25, 0.5, 0.5, 1])
    items = [{'id': 'S1', 'kind': 'source', 'ct': rng.choice([0, ct, 4 * ct]), 'budget': rng.choice([2, 4, 6, None]),
              'values': [1], 'qualities': [1]},
             {'id': 'B2', 'kind': 'buffer', 'up': ['S1'], 'cap': rng.choice([4, 6, 9, None]),
              'delay': rng.choice([0, 0.5, ct, 2 * ct])},
             {'id': 'H3', 'kind': 'handler', 'up': ['B2'], 'ct': ct, 'res': None, 'conwip': 'B2'},
             {'id': 'K4', 'kind': 'sink', 'up': ['H3'], 'ct': 0, 'collect': False}]
    if items[0]['ct'] == 0 and items[0]['budget'] is None:
        items[0]['budget'] = 5          # (an unlimited zero-cycle source in front of an unbounded queue never ends)
    return {'resources': {}, 'items': items, 'horizon': [float(rng.choice([80, 120, 200]))], 'script': [], 'tie': tie,
            'seed': seed, 'max_events': 60000, 'profile': 'conwip'}


def generate_blocked_paths(seed, tie='prng'):
    """One or two sources through their own paths of one shared cell (a group with one quick machine) into a SLOW
    station each; the paths' inputs are closed and reopened on a script (as an operating schedule does in
    examples/SharedResourcesComplex.py).  A part that entered through a path still leaves through it while the path's
    input is closed: it waits, finished, in the cell until the slow station has room."""
    rng = random.Random(core.stable_int('blocked_paths', seed))
    n = rng.choice([1, 2, 2])
    ct = rng.choice([0.5, 1])
    items = []
    for k in range(n):
        items.append({'id': f'S{k}', 'kind': 'source', 'ct': rng.choice([0, ct]), 'budget': None, 'values': [1],
                      'qualities': [1]})
    items.append({'id': 'M', 'kind': rng.choice(['handler', 'processor']), 'up': [], 'ct': ct, 'res': None})
    items.append({'id': 'CELL', 'kind': 'group', 'members': ['M']})
    for k in range(n):
        items.append({'id': f'GP{k}', 'kind': 'path', 'group': 'CELL', 'up': [f'S{k}']})
    for k in range(n):
        items.append({'id': f'D{k}', 'kind': 'handler', 'up': [f'GP{k}'], 'ct': ct * rng.choice([3, 4, 6]), 'res': None})
        items.append({'id': f'K{k}', 'kind': 'sink', 'up': [f'D{k}'], 'ct': 0, 'collect': False})
    horizon = float(rng.choice([30, 40]))
    script = []
    for _ in range(rng.choice([2, 3, 5])):
        t = grid_time(rng, horizon * 0.8)
        gp = f'GP{rng.randrange(n)}'
        script.append({'t': t, 'prio': rng.choice(PRIOS), 'op': 'block', 'target': gp})
        script.append({'t': min(horizon, t + rng.choice([2, 4, 7, 12])), 'prio': rng.choice(PRIOS), 'op': 'unblock',
                       'target': gp})
    script.sort(key=lambda e: e['t'])
    return {'resources': {}, 'items': items, 'horizon': [horizon], 'script': script, 'tie': tie,
            'seed': seed, 'max_events': 20000, 'profile': 'blocked_paths'}


def generate_big_batches(i, tie='prng'):
    """Scale: output batches of several hundred parts (sizes beyond anything a small-number shortcut covers)."""
    size = [257, 300, 1000, 256, 258][i % 5]
    items = [{'id': 'S1', 'kind': 'source', 'ct': 0.125, 'budget': None, 'values': [1], 'qualities': [1],
              'batch': [[3, 5, 0, 7], [1], [4, 4, 129]][(i // 5) % 3]},
             {'id': 'T2', 'kind': 'batcher', 'up': ['S1'], 'size': size},
             {'id': 'B3', 'kind': 'buffer', 'up': ['T2'], 'cap': None, 'delay': 0},
             {'id': 'K4', 'kind': 'sink', 'up': ['B3'], 'ct': 0, 'collect': True}]
    return {'resources': {}, 'items': items, 'horizon': [80.0], 'script': [], 'tie': tie, 'seed': i,
            'max_events': 60000, 'profile': 'big_batches'}


def generate_mass_release(i, tie='prng'):
    """Scale: about 1100 parts mature in one buffer at the same instant and leave it in one event."""
    n = [1080, 1150, 1300][i % 3]
    items = [{'id': 'S1', 'kind': 'source', 'ct': 0, 'budget': n, 'values': [1], 'qualities': [1]},
             {'id': 'B2', 'kind': 'buffer', 'up': ['S1'], 'cap': None, 'delay': [1, 0.5, 2][i % 3]}]
    if (i // 3) % 2:
        items.append({'id': 'B3', 'kind': 'buffer', 'up': ['B2'], 'cap': None, 'delay': 0})
        items.append({'id': 'K4', 'kind': 'sink', 'up': ['B3'], 'ct': 0, 'collect': False})
    else:
        items.append({'id': 'K3', 'kind': 'sink', 'up': ['B2'], 'ct': 0, 'collect': False})
    return {'resources': {}, 'items': items, 'horizon': [4.0], 'script': [], 'tie': tie, 'seed': i,
            'max_events': 40000, 'profile': 'mass_release'}


def generate_decimal_buffer(i, tie='prng'):
    """One-decimal sweep: source (cycle c) -> buffer (minimum delay d) -> sink, every (c, d) with c in 0.1..0.9 and d
    in 0.1..3.0, long enough for 250 parts: the buffer's wake-ups for queued parts are computed as
    now + (d - (now - stored)), which lands next to, not always on, stored + d."""
    c = (i % 9 + 1) / 10.0
    d = ((i // 9) % 30 + 1) / 10.0
    variant = (i // 270) % 3
    items = [{'id': 'S1', 'kind': 'source', 'ct': c, 'budget': None, 'values': [1], 'qualities': [1]},
             {'id': 'B2', 'kind': 'buffer', 'up': ['S1'], 'cap': [None, 40, None][variant], 'delay': d}]
    if variant == 2:
        items.append({'id': 'H3', 'kind': 'handler', 'up': ['B2'], 'ct': c})
        items.append({'id': 'K4', 'kind': 'sink', 'up': ['H3'], 'ct': 0, 'collect': False})
    else:
        items.append({'id': 'K3', 'kind': 'sink', 'up': ['B2'], 'ct': 0, 'collect': False})
    return {'resources': {}, 'items': items, 'horizon': [min(60.0, 250 * c)], 'script': [], 'tie': tie,
            'seed': i, 'max_events': 40000, 'decimal': True, 'profile': 'decimal_buffer'}


def near_tie_combos():
    out = []
    for s_ in (0.1, 0.2, 0.3):
        for b in (0.1, 0.2, 0.3, 0.4, 0.5, 0.6, 0.7, 0.8, 0.9, 1.1, 1.3):
            a = round(b + s_, 1)
            f1, f2 = s_ + a, (s_ + s_) + b
            if f1 != f2 and abs(f1 - f2) < 1e-12:
                out.append((s_, a, b))
    return out


def generate_near_tie(i, tie='prng'):
    """Two parallel machines that become idle at the 'same' instant computed along two float paths (s + a and
    2s + b, one unit in the last place apart), both behind plain pass-through devices; much later a third part
    arrives: the machine that has really been idle longer must get it."""
    combos = near_tie_combos()
    s_, a, b = combos[i % len(combos)]
    v = i // len(combos)
    f1, f2 = s_ + a, (s_ + s_) + b
    # the machine that becomes idle LATER is listed first, so that a tie (or a collapsed comparison) picks it
    first, second = (('A', a), ('B', b)) if f1 > f2 else (('B', b), ('A', a))
    # the first part must go to A (cycle a), the second to B: A is the only one open when the first part arrives
    items = [{'id': 'S1', 'kind': 'source', 'ct': s_, 'budget': 2, 'values': [1], 'qualities': [1]}]
    sender = 'S1'
    if v % 2:
        items.append({'id': 'H2', 'kind': 'handler', 'up': ['S1'], 'ct': 0})
        sender = 'H2'
    for name, ct in (first, second):
        g = 'G' + name
        items.append({'id': g, 'kind': ['gate', 'flow'][(v // 2) % 2], 'up': [sender], 'pred': {'t': 'always'}})
        if items[-1]['kind'] == 'flow':
            items[-1].pop('pred')
        items.append({'id': name, 'kind': ['handler', 'processor'][(v // 4) % 2], 'up': [g], 'ct': ct, 'res': None})
    items.append({'id': 'K9', 'kind': 'sink', 'up': ['A', 'B'], 'ct': 0, 'collect': True})
    T = [5.0, 9.3, 1000.0, 2.0 ** 20][(v // 8) % 4]
    script = [{'t': s_ * 1.5, 'prio': 10, 'op': 'unblock', 'target': 'GB'},
              {'t': T, 'prio': 5, 'op': 'adjust_budget', 'target': 'S1', 'n': 1}]
    pre = [{'t': None, 'prio': 5, 'op': 'block', 'target': 'GB'}]
    return {'resources': {}, 'items': items, 'horizon': [T + 3.0], 'tie': tie, 'seed': i, 'max_events': 5000,
            'script': script, 'pre': pre, 'decimal': True, 'profile': 'near_tie'}


def generate_dead_end(seed, tie='prng'):
    """Two or three stations fed from one buffer (or straight from the source) through gates or plain junctions; one
    station is taken out of the line for a while (`set_upstream([])`) and put back later, so its gate stays connected
    in front and leads nowhere: parts offered to it are refused and go the other way."""
    rng = random.Random(core.stable_int('deadend', seed))
    items = [{'id': 'S1', 'kind': 'source', 'ct': rng.choice([0.5, 1, 1]), 'budget': None, 'values': [1, 2],
              'qualities': [1]}]
    sender = 'S1'
    if rng.random() < 0.7:
        items.append({'id': 'B2', 'kind': 'buffer', 'up': ['S1'], 'cap': rng.choice([2, 4, None]),
                      'delay': rng.choice([0, 0, 0.5])})
        sender = 'B2'
    n = rng.choice([2, 2, 3])
    stations = []
    for j in range(n):
        pred = rng.choice([{'t': 'always'}, {'t': 'always'}, {'t': 'seq_mod', 'm': 3, 'r': [0, 1]},
                           {'t': 'value_ge', 'th': 2}])
        if j == 0:
            pred = {'t': 'always'}          # (every part has somewhere to go)
        kind = 'gate' if rng.random() < 0.8 else 'flow'
        g = {'id': f'G{j}', 'kind': kind, 'up': [sender]}
        if kind == 'gate':
            g['pred'] = pred
        items.append(g)
        items.append({'id': f'P{j}', 'kind': rng.choice(['processor', 'handler']), 'up': [f'G{j}'],
                      'ct': rng.choice([1.5, 2, 2.5, 3]), 'res': None})
        stations.append(f'P{j}')
    items.append({'id': 'K9', 'kind': 'sink', 'up': stations, 'ct': 0, 'collect': True})
    total = float(rng.choice([24, 32, 40]))
    victim = rng.choice(stations[1:])
    t1 = rng.randrange(8, int(total * 4)) / 8.0
    t2 = t1 + rng.choice([2.5, 4, 8])
    script = [{'t': t1, 'prio': rng.choice([5, 10.5]), 'op': 'detach', 'target': victim}]
    if t2 < total - 1:
        script.append({'t': t2, 'prio': 5, 'op': 'reattach', 'target': victim})
    return {'resources': {}, 'items': items, 'horizon': [total], 'tie': tie, 'seed': seed, 'max_events': 20000,
            'script': script, 'profile': 'dead_end'}


def generate_fanout(seed, tie='prng', decimal=False):
    """Fan-out models for the idle-longest rule: a sender feeding 2-4 parallel plain single-slot
    devices (handlers, resource-free processors, sinks) with different cycle times, some of them behind plain
    pass-through devices; decimal: one-decimal cycle times, so that idle-since instants such as 0.1+0.2 and 0.3
    differ by one unit in the last place."""
    rng = random.Random(core.stable_int('fanout', seed, decimal))
    items = []
    items.append({'id': 'S1', 'kind': 'source', 'ct': rng.choice([0.25, 0.5, 0.5, 1]), 'budget': None,
                  'values': [1, 2], 'qualities': [1]})
    sender = 'S1'
    burst = rng.random() < 0.3
    if burst:
        # bursts: batches unpacked into a delay buffer mature together, so the buffer releases several
        # parts in ONE event and has to re-rank its downstreams after each hand-over
        items[0]['batch'] = [rng.choice([2, 3, 4])]
        items[0]['ct'] = rng.choice([1, 1.5, 2, 3])
        items.append({'id': 'T2', 'kind': 'batcher', 'up': ['S1'], 'size': None})
        items.append({'id': 'B2', 'kind': 'buffer', 'up': ['T2'], 'cap': None, 'delay': rng.choice([0.5, 1, 2])})
        sender = 'B2'
    elif rng.random() < 0.5:
        items.append({'id': 'H2', 'kind': 'handler', 'up': ['S1'], 'ct': rng.choice([0, 0.25, 0.5])})
        sender = 'H2'
    elif rng.random() < 0.4:
        items.append({'id': 'B2', 'kind': 'buffer', 'up': ['S1'], 'cap': rng.choice([2, 4, None]), 'delay': 0})
        sender = 'B2'
    k = rng.choice([2, 2, 3, 3, 4])
    par = []
    for j in range(k):
        pid = f'X{j + 3}'
        kind = rng.choice(['handler', 'handler', 'processor', 'sink'])
        ct = rng.choice([0.5, 0.75, 1, 1.5, 2, 2.5, 3, 0.625, 1.125])
        if decimal:
            ct = rng.choice([0.1, 0.2, 0.3, 0.3, 0.6, 0.7, 1.1, 0.9])
        if burst and j == 0:
            kind, ct = 'sink', 0
        leaf_up = sender
        if rng.random() < (0.6 if decimal else 0.3):
            # behind a plain pass-through device
            gid = f'G{j + 3}'
            if rng.random() < 0.5:
                items.append({'id': gid, 'kind': 'gate', 'up': [sender], 'pred': {'t': 'always'}})
            else:
                items.append({'id': gid, 'kind': 'flow', 'up': [sender]})
            leaf_up = gid
            if rng.random() < 0.35:
                gid2 = f'F{j + 3}b'
                items.append({'id': gid2, 'kind': 'flow', 'up': [gid]})     # two pass-through devices in a row
                leaf_up = gid2
        if kind == 'processor':
            items.append({'id': pid, 'kind': 'processor', 'up': [leaf_up], 'ct': ct, 'res': None,
                          'wo': {'x': [1, 0, 0], 'y': [0.5, 0, 0]}})
            if rng.random() < 0.3:
                items[-1]['raise_shutdown'] = 1        # its shutdown callback fails the first time (caught by the caller)
        elif kind == 'sink':
            items.append({'id': pid, 'kind': 'sink', 'up': [leaf_up], 'ct': ct, 'collect': True})
        else:
            items.append({'id': pid, 'kind': 'handler', 'up': [leaf_up], 'ct': ct})
            if rng.random() < 0.25:
                items[-1]['len_dev'] = True
        par.append((pid, kind))
    ups = [p for p, kd in par if kd != 'sink']
    if ups:
        items.append({'id': 'K99', 'kind': 'sink', 'up': ups, 'ct': 0, 'collect': rng.random() < 0.5})
    horizon = float(rng.choice([20, 30, 40]))
    if decimal:
        items[0]['ct'] = rng.choice([0.1, 0.2, 0.3, 0.1])
        for it in items:
            if it['kind'] in ('handler', 'buffer') and it['id'] in ('H2', 'B2'):
                if 'ct' in it:
                    it['ct'] = rng.choice([0, 0.1, 0.2])
                if it.get('delay'):
                    it['delay'] = rng.choice([0.1, 0.3, 0.7])
        horizon = float(rng.choice([8, 12]))
    script = []
    for _ in range(rng.choice([0, 2, 4, 6]) if not decimal else 0):
        t = grid_time(rng, horizon)
        tgt = rng.choice(par)[0]
        op = rng.choice(['block', 'block', 'fail', 'shutdown', 'shutdown'])
        if op in ('fail', 'shutdown') and dict(par)[tgt] != 'processor':
            op = 'block'
        script.append({'t': t, 'prio': rng.choice(PRIOS), 'op': op, 'target': tgt})
        script.append({'t': min(horizon, t + rng.choice([0.5, 1, 2, 3])), 'prio': rng.choice(PRIOS),
                       'op': 'unblock' if op == 'block' else 'restore', 'target': tgt})
    script.sort(key=lambda e: e['t'])
    resources = {}
    procs_ = [it for it in items if it['kind'] == 'processor']
    if procs_ and not decimal and not burst and rng.random() < 0.4:
        # one of the parallel stations needs a pool that is empty at first: it refuses its first offers although it is
        # idle (and stays idle since then), gets its resource later, and must then be preferred as the longest idle
        it = rng.choice(procs_)
        it['res'] = {'r0': 1}
        resources['r0'] = 0
        script.append({'t': rng.choice([3, 4.5, 6, 7.5]), 'prio': rng.choice(PRIOS), 'op': 'add_capacity', 'res': 'r0',
                       'amount': 1})
        items[0]['ct'] = rng.choice([2, 3, 4])
        script.sort(key=lambda e: e['t'])
    spec = {'resources': resources, 'items': items, 'horizon': [horizon], 'tie': tie, 'seed': seed,
            'max_events': 20000, 'script': script, 'profile': 'fanout'}
    if decimal:
        spec['decimal'] = True
    return spec


# float-noise profile: decimal (not exactly representable) times; only monitors whose oracle is
# rounding-independent or carries an explicit ulp tolerance are run on it
DECIMAL = {'decimal': True,
           'cts': [0, 0.1, 0.3, 0.7, 1.1, 0.334, 2.2, 1 / 3],
           'src_cts': [0.1, 0.3, 0.7, 1.1, 0.334, 0.9],
           'sink_cts': [0, 0, 0.1, 0.7, 1.3],
           'buffer_delay': [0, 0.1, 0.3, 0.7, 1.1, 2.2, 1 / 3]}


def generate_scrap_lots(seed, tie='prng'):
    """Lots are taken apart by a PartBatcher and inspected one unit at a time by the station right behind it; when the
    inspector receives a bad one (every k-th) it scraps the rest of the lot that part came from, from its receive
    callback, i.e. while the batcher is handing the part over (`Batch.parts` "can be modified directly").  Everything
    that was not scrapped still comes through, in order, and later lots are still accepted."""
    rng = random.Random(core.stable_int('scraplots', seed))
    sizes = [rng.choice([2, 3, 4, 5, 6]) for _ in range(rng.choice([1, 2, 3]))]
    ct = rng.choice([0.5, 1, 2])
    items = [{'id': 'S1', 'kind': 'source', 'ct': ct, 'budget': rng.choice([None, None, 6, 12]), 'values': [1, 2.5],
              'qualities': [1], 'batch': sizes},
             {'id': 'T2', 'kind': 'batcher', 'up': ['S1'], 'size': rng.choice([None, None, None, 2, 3]),
              'lot_seen': True},
             {'id': 'H3', 'kind': 'handler', 'up': ['T2'], 'ct': rng.choice([0.125, 0.25, 0.5, 0]), 'res': None,
              'scrap': {'batcher': 'T2', 'every': rng.choice([2, 3, 5, 7])}}]
    prev = 'H3'
    if rng.random() < 0.4:
        items.append({'id': 'B4', 'kind': 'buffer', 'up': [prev], 'cap': rng.choice([2, 4, None]),
                      'delay': rng.choice([0, 0.5])})
        prev = 'B4'
    items.append({'id': 'K6', 'kind': 'sink', 'up': [prev], 'ct': rng.choice([0, 0, 0.5]), 'collect': True})
    return {'resources': {}, 'items': items, 'horizon': [float(rng.choice([20, 30, 40]))], 'tie': tie, 'seed': seed,
            'max_events': 20000, 'script': [], 'profile': 'scrap_lots'}


def generate_scratch_batches(seed, tie='prng'):
    """A source whose generator builds every Batch in one scratch list, feeding a PartBatcher that unpacks the
    whole Batch at once (so the re-use is legal), then a buffer where the re-packed batches wait."""
    rng = random.Random(core.stable_int('scratch', seed))
    # every input Batch must be unpacked completely when it is accepted (else re-using the list would be the
    # caller's mistake): all batches have the batcher's output size, so nothing is ever left in progress
    n = rng.choice([2, 3, 4])
    sizes = [n]
    items = [{'id': 'S1', 'kind': 'source', 'ct': rng.choice([0.5, 1, 1.5]), 'budget': None, 'values': [1, 2.5],
              'qualities': [1], 'batch': sizes, 'scratch': True},
             {'id': 'T2', 'kind': 'batcher', 'up': ['S1'], 'size': n},
             {'id': 'B3', 'kind': 'buffer', 'up': ['T2'], 'cap': rng.choice([n, 2 * n, None]),
              'delay': rng.choice([0, 0.5, 1])}]
    prev = 'B3'
    if rng.random() < 0.5:
        items.append({'id': 'T4', 'kind': 'batcher', 'up': [prev], 'size': rng.choice([None, 2])})
        prev = 'T4'
    items.append({'id': 'P5', 'kind': 'processor', 'up': [prev], 'ct': rng.choice([1, 2, 3.5]), 'res': None,
                  'wo': {'x': [1, 0, 0], 'y': [0, 0, 0]}})
    items.append({'id': 'K6', 'kind': 'sink', 'up': ['P5'], 'ct': 0, 'collect': True})
    return {'resources': {}, 'items': items, 'horizon': [float(rng.choice([20, 30, 40]))], 'tie': tie, 'seed': seed,
            'max_events': 20000, 'script': [], 'profile': 'scratch_batches'}
