"""A nosy user, not an oracle: every k-th event boundary every public property and getter of every device, part,
pool and of the System is read, and what the getters that hand out fresh copies return is scribbled on.  Looking
at a model - and doing what one likes with the copies it hands out - must not change what it does; the other
monitors of the run judge that."""
from . import register
from .. import instrument
from ..census import leaves_of

JUNK = object()
# getters that return a fresh container on every call (so changing the result is the caller's business)
FRESH = ('upstream', 'joined_groups', 'stored_parts', 'routing_history', 'probes', 'reserved_resources')


@register('observer')
class Observer:
    def __init__(self, ctx):
        self.ctx = ctx
        self.m = ctx.model
        self.k = int(ctx.spec.get('observe') or 0)
        self.n = 0
        self.props = {}

    def public_properties(self, obj):
        cls = type(obj)
        names = self.props.get(cls)
        if names is None:
            names = []
            for klass in cls.__mro__:
                for nm, v in vars(klass).items():
                    if isinstance(v, property) and not nm.startswith('_') and nm not in names:
                        names.append(nm)
            self.props[cls] = names
        return names

    def look_at(self, obj):
        for nm in self.public_properties(obj):
            try:
                v = getattr(obj, nm)
            except Exception:
                self.ctx.count('getters_that_raised')
                continue
            self.ctx.count('getter_reads')
            if nm in FRESH:
                if isinstance(v, list):
                    v.append(JUNK)
                    v.reverse()
                    del v[:]
                    self.ctx.count('returned_copies_scribbled_on')
                elif isinstance(v, dict):
                    v['junk'] = JUNK
                    v.clear()
                    self.ctx.count('returned_copies_scribbled_on')

    def on_event(self, env, head):
        if not self.k:
            return
        self.n += 1
        if self.n % self.k:
            return
        m = self.m
        bus = instrument.CUR
        with instrument.external(bus):
            for did, dev in list(m.devs.items()):
                self.look_at(dev)
                for slot in ('_part', '_output'):
                    p = getattr(dev, slot, None)
                    if p is not None and hasattr(p, 'routing_history'):
                        for leaf in [p] + (leaves_of(p) if getattr(p, 'parts', None) is not None else []):
                            self.look_at(leaf)
                for a in getattr(dev, 'get_sorted_downstream_list', lambda: [])():
                    pass
            for a in m.world.extra:
                self.look_at(a)
            sysm = m.system
            found = sysm.find_assets()
            found.append(JUNK)
            del found[:]
            sysm.find_assets(name='nobody')
            sysm.get_net_value_of_assets()
            data = sysm.simulation_data
            for label in list(data):
                len(data[label])
            rm = m.world.rm
            if rm is not None:
                for r in self.ctx.spec.get('resources', {}):
                    rm.get_resource_usage(r)
                    rm.get_resource_capacity(r)
            str(env.now)
        self.ctx.count('observations')
