"""The reference queue model (refs/evq.py) attached to whole-line runs: the
'every model assembled from the library's devices' leg of C01 / C07."""
from . import register
from ..refs.evq import QueueMonitor, OWNER


@register('queue')
class LineQueue(QueueMonitor):
    early = True

    def __init__(self, ctx):
        self.ctx = ctx
        exact = True
        super().__init__(self._report, ctx.count, exact=exact, owner=ctx.prop)
        self.bus = ctx.bus

    def _report(self, name, msg, witness):
        if OWNER.get(name) == self.ctx.prop:
            self.ctx.report(name, msg, witness)
        else:
            self.ctx.count('foreign_discrepancy_' + name)

    def features(self):
        return {'tie_groups': self.tie_groups, 'nested_insertions': self.nested_insertions,
                'shifted_resumes': self.shifted_resumes}
