"""The reference queue model (refs/evq.py) attached to whole-line runs: the
'every model assembled from the library's devices' leg of C01 / C07."""
from . import register
from ..refs.evq import QueueMonitor, OWNER


@register('queue')
class LineQueue(QueueMonitor):
    early = True

    def __init__(self, ctx):
        self.ctx = ctx
        exact = True
        super().__init__(self._report, ctx.count, exact=exact, owner=ctx.prop)
        self.bus = ctx.bus

    def _report(self, name, msg, witness):
        if OWNER.get(name) == self.ctx.prop:
            self.ctx.report(name, msg, witness)
        else:
            self.ctx.count('foreign_discrepancy_' + name)

    def features(self):
        return {'tie_groups': self.tie_groups, 'nested_insertions': self.nested_insertions,
                'shifted_resumes': self.shifted_resumes}

    # run(d) window on whole lines: every simulate(d) ends with the clock at exactly t0 + d, every live event
    # due by then executed, none due later executed
    def run_begin(self, env, t0, d):
        self._run = (t0, d)

    def run_end(self, env, t0, d):
        if self.dead or self.ctx.prop != 'C01':
            return
        end = t0 + d
        if env.now != end:
            self.fail('run_window', f'simulate({d!r}) from {t0!r} ended with the clock at {env.now!r}, expected {end!r}')
            return
        # (events at the terminate priority itself - e.g. the end marker of an earlier run that an exception cut
        # short - are outside the statement: it speaks of priorities above the terminate priority)
        left = [s.brief() for s in self.pending.values() if s.time <= end and not s.cancelled and s.prio > 1]
        if left:
            self.fail('run_window', f'after simulate({d!r}) from {t0!r}: live events due by {end!r} not executed: '
                      f'{left[:3]}')
            return
        self.count('run_windows_checked')
