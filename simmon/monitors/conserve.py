"""C02 - conservation of parts, judged after every event."""
from . import register
from ..census import leaves_of


@register('conserve')
class Conserve:
    def __init__(self, ctx):
        self.ctx = ctx
        self.m = ctx.model
        self.received = {}        # uid -> sink id
        self.lost = {}            # uid -> processor id
        self.n_recv_log = 0
        self.n_shut_log = 0
        self.n_script = 0
        self.sink_leaves = {}     # sink id -> count of leaves received (callback channel)
        self.budget = {i['id']: i.get('budget') for i in ctx.spec['items'] if i['kind'] == 'source'}
        self.cb_lost_ids = {}     # proc id -> library ids of the parts the callbacks reported lost
        self.refusals = 0
        self.lost_parts = 0
        self.batch_traffic = 0
        self.checks = 0

    def uid(self, leaf):
        return getattr(leaf, 'huid', None) or 'anon:%d' % id(leaf)

    def on_event(self, env, head):
        ctx, m = self.ctx, self.m
        log = m.log
        cen = ctx.census
        now = env.now
        # sinks: what was received (callback channel, flattened at callback time is not needed:
        # a received batch is not modified afterwards)
        while self.n_recv_log < len(log.receives):
            t, did, part, ct, ser, lvs, val = log.receives[self.n_recv_log]
            self.n_recv_log += 1
            if m.kinds[did] == 'sink':
                lv = leaves_of(part)
                if len(lv) != 1 or lv[0] is not part:
                    self.batch_traffic += 1
                self.sink_leaves[did] = self.sink_leaves.get(did, 0) + len(lv)
                for leaf in lv:
                    u = self.uid(leaf)
                    if u in self.received:
                        ctx.report('received_twice', f'part {u} received by sink {did} at {t} was already '
                                   f'received by {self.received[u]}')
                        return
                    self.received[u] = did
            elif getattr(part, 'parts', None) is not None:
                self.batch_traffic += 1
        # lost parts: shutdown callbacks (first of the three registered) ...
        while self.n_shut_log < len(log.shutdowns):
            t, did, idx, is_failure, part, ser = log.shutdowns[self.n_shut_log]
            self.n_shut_log += 1
            if idx != 0 or part is None:
                continue
            if not is_failure:
                ctx.report('lost_without_failure', f'{did} reported lost part on a non-failure shutdown at {t}')
                return
            self.cb_lost_ids.setdefault(did, []).append(part.id)
            for leaf in leaves_of(part):
                u = self.uid(leaf)
                if u in self.lost:
                    ctx.report('lost_twice', f'part {u} reported lost by {did} at {t}, already lost by {self.lost[u]}')
                    return
                self.lost[u] = did
                self.lost_parts += 1
        # ... and the failure log must name the same parts, in the same order
        recs = env.simulation_data.get('device_failure', {})
        for did in set(recs) | set(self.cb_lost_ids):
            rec_ids = [pid for (t, pid) in recs.get(did, []) if pid is not None]
            if rec_ids != self.cb_lost_ids.get(did, []):
                ctx.report('lost_channels_disagree', f'{did}: device_failure records name lost parts {rec_ids[-5:]}, '
                           f'shutdown callbacks were told {self.cb_lost_ids.get(did, [])[-5:]}')
                return
        # budgets
        while self.n_script < len(log.script):
            t, op, out, ser = log.script[self.n_script]
            self.n_script += 1
            if op['op'] == 'adjust_budget':
                s = op['target']
                b = self.budget.get(s)
                if b is not None:
                    supplied = m.devs[s].produced_parts
                    self.budget[s] = max(b + op['n'], supplied)
        for s, b in self.budget.items():
            if b is not None and m.devs[s].produced_parts > b:
                ctx.report('budget_exceeded', f'source {s} supplied {m.devs[s].produced_parts} parts, budget {b}')
                return
        # census
        if cen.dups:
            u, a, b = cen.dups[0]
            ctx.report('duplicate', f'part {u} is in two places: {a} and {b}')
            return
        self.checks += 1
        ctx.count('census_checks')
        n_inside = len(cen.loc)
        for u in cen.loc:
            if u in self.received:
                ctx.report('duplicate', f'part {u} is held at {cen.loc[u]} and was received by sink '
                           f'{self.received[u]}')
                return
            if u in self.lost:
                ctx.report('duplicate', f'part {u} is held at {cen.loc[u]} and was reported lost by '
                           f'{self.lost[u]}')
                return
        gen = log.leaves
        if cen.opaque:
            ctx.count('census_opaque_conservation_not_judged')
        elif len(gen) != n_inside + len(self.received) + len(self.lost):
            missing = [self.uid(p) for p in gen if self.uid(p) not in cen.loc
                       and self.uid(p) not in self.received and self.uid(p) not in self.lost]
            extra = [u for u in list(cen.loc) + list(self.received) + list(self.lost)
                     if u.startswith('anon:')]
            ctx.report('conservation', f'generated {len(gen)} != inside {n_inside} + received '
                       f'{len(self.received)} + lost {len(self.lost)}; missing={missing[:5]} '
                       f'invented={extra[:5]}', {'last_event': str(head)[:300]})
            return
        # single-slot devices
        for did, s in cen.slots.items():
            k = m.kinds[did]
            if k in ('handler', 'processor', 'source', 'sink') and s['in'] is not None and s['out'] is not None:
                ctx.report('two_parts_in_single_slot', f'{k} {did} holds {s["in"].name} and {s["out"].name}')
                return
            if k == 'sink':
                cnt = m.devs[did].received_parts_count
                if cnt != self.sink_leaves.get(did, 0):
                    ctx.report('sink_count', f'sink {did} counts {cnt} parts, received '
                               f'{self.sink_leaves.get(did, 0)} leaves')
                    return

    def on_end(self):
        self.ctx.count('parts_generated', len(self.m.log.leaves))
        self.ctx.count('parts_received', len(self.received))
        self.ctx.count('parts_lost', len(self.lost))

    def features(self):
        return {'lost_parts': self.lost_parts, 'batch_traffic': self.batch_traffic,
                'received': len(self.received)}
