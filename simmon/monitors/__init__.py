"""Monitor registry for the line engine."""
REGISTRY = {}


def register(name):
    def deco(cls):
        REGISTRY[name] = cls
        cls.reg_name = name
        return cls
    return deco


from . import queue, conserve, lostwake, buffers, batching, cycles, machine, holdings, values, records, routing, maint, observer  # noqa: E402,F401
