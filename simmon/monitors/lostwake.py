"""C03 - no lost wake-up.  At every instant at which the clock is about to
advance (and at the end of every run) each *ready* part is offered, on a deep
copy of the whole system, to each downstream neighbour of its holder with the
real give_part.  Any True is a part that could have moved and did not."""
import copy
import math

from . import register
from .. import instrument


@register('lostwake')
class LostWake:
    def __init__(self, ctx):
        self.ctx = ctx
        self.m = ctx.model
        self.blocked = {}          # (holder id, id(part)) -> first instant seen blocked
        self.wakeups = 0
        self.refused_offers = 0
        self.instants_probed = 0
        self.copies = 0
        self.n_script = 0
        self.unblock_kinds = {}
        self.held_while_down = set()
        # float-noise profile: an instant within a few ulp of stored + delay is the same instant
        self.decimal = bool(ctx.spec.get('decimal'))

    def on_event(self, env, head):
        # (used when the probe runs for C13: 'a finished part kept through a shutdown / failure leaves after
        # restoration') remember which finished parts sat in a processor while it was down
        if self.ctx.prop != 'C13':
            return
        for did, dev in self.m.devs.items():
            if self.m.kinds[did] == 'processor' and dev._output is not None and not dev.is_operational():
                self.held_while_down.add((did, id(dev._output)))

    def ready_parts(self, env):
        m = self.m
        now = env.now
        out = []
        for did, dev in m.devs.items():
            k = m.kinds[did]
            if k in ('handler', 'processor', 'batcher'):
                if dev._output is not None and dev.is_operational():
                    out.append((did, 'out'))
            elif k == 'source':
                if dev._output is not None and dev.remaining_parts >= 1:
                    out.append((did, 'out'))
            elif k == 'buffer':
                # ready = the delay has fully elapsed (no rounding allowance: with decimal times the wake-up
                # is scheduled for stored + delay, which may lie one ulp after an instant that happens to exist)
                # (the arrival stamp of the oldest part has no public accessor; if the private queue is not the list of
                #  (stamp, part) pairs any more, buffers are not probed and the run says so)
                try:
                    stamp = dev._buffer[0][0] if dev._buffer else None
                    ok = stamp is None or dev._buffer[0][1] is dev.stored_parts[0]
                except Exception:
                    ok = False
                if not ok:
                    self.ctx.count('buffer_internals_not_visible')
                    continue
                slack = (now - stamp) - dev.minimum_delay if stamp is not None else -1
                if stamp is not None and (slack > 4 * math.ulp(now) if self.decimal else slack >= 0):
                    out.append((did, 'buf'))
        return out

    def on_quiescent(self, env, t_next):
        ctx = self.ctx
        ready = self.ready_parts(env)
        # wake-up accounting: blocked parts that have left their holder since
        cur = set()
        for did, slot in ready:
            dev = self.m.devs[did]
            part = dev._output if slot == 'out' else dev._buffer[0][1]
            cur.add((did, id(part)))
        for key in list(self.blocked):
            if key not in cur:
                del self.blocked[key]
                self.wakeups += 1
                ctx.count('wakeups')
        log = self.m.log
        while self.n_script < len(log.script):
            t, op, out, ser = log.script[self.n_script]
            self.n_script += 1
            k = op['op']
            if k in ('unblock', 'restore', 'rewire') or (k == 'add_capacity' and op['amount'] > 0) \
                    or (k == 'adjust_budget' and op['n'] > 0) or k == 'work_order':
                ctx.count('unblocking_change:' + k)
        if not ready:
            return
        if self.ctx.spec.get('long'):
            # long histories: the (deep-copying) probe runs at every 10th instant that has a ready part
            self.n_ready_instants = getattr(self, 'n_ready_instants', 0) + 1
            if self.n_ready_instants % 10 or self.copies >= 300:
                return
        self.instants_probed += 1
        ctx.count('instants_probed')
        world = self.m.world
        env_real = world.system.env
        with instrument.probing():
            memo = {id(env_real.simulation_data): {}}
            wcopy = copy.deepcopy(world, memo)
            self.copies += 1
            for did, slot in ready:
                dev = wcopy.devs[did]
                part = dev._output if slot == 'out' else dev._buffer[0][1]
                moved_to = None
                for dwn in list(dev._downstream):
                    try:
                        ok = dwn.give_part(part)
                    except Exception as e:     # a probe must never decide by crashing
                        ctx.count('probe_exceptions')
                        ok = False
                        self.last_probe_exc = repr(e)
                    if ok:
                        moved_to = dwn.name
                        break
                    self.refused_offers += 1
                    ctx.count('refused_offers')
                if moved_to is not None:
                    real = self.m.devs[did]
                    rpart = real._output if slot == 'out' else real._buffer[0][1]
                    if ctx.prop == 'C13':
                        if (did, id(rpart)) not in self.held_while_down:
                            ctx.count('stuck_parts_not_owned_by_C13')
                            continue
                        ctx.report('finished_part_stuck_after_restore',
                                   f'at {env.now!r} {did} is operational again and still holds finished part '
                                   f'{rpart.name}, which it kept through its down time, although downstream {moved_to} '
                                   f'accepts it when offered', {'holder': did})
                        return
                    ctx.report('lost_wakeup',
                               f'at {env.now!r} (clock about to advance to {t_next!r}) {did} holds ready part '
                               f'{rpart.name} and downstream {moved_to} accepts it when offered',
                               {'holder': did, 'slot': slot, 'accepting': moved_to,
                                'waiting_flag': getattr(real, '_waiting_for_downstream_space', None)})
                    return
                key = (did, id(self.m.devs[did]._output if slot == 'out' else self.m.devs[did]._buffer[0][1]))
                if key not in self.blocked:
                    self.blocked[key] = env.now
                    ctx.count('blocked_parts')

    def features(self):
        return {'wakeups': self.wakeups, 'refused_offers': self.refused_offers,
                'instants_probed': self.instants_probed}
