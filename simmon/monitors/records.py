"""C15 - recorded simulation data mirrors what actually happened."""
import json
import os

from . import register
from ..census import leaves_of
from ..instrument import action_name, action_owner


@register('records')
class Records:
    early = False

    def __init__(self, ctx):
        self.ctx = ctx
        self.m = ctx.model
        items = ctx.spec['items']
        self.kind = {i['id']: i['kind'] for i in items}
        self.buffers = [i['id'] for i in items if i['kind'] == 'buffer']
        self.sources = [i['id'] for i in items if i['kind'] == 'source']
        self.sinks = [i['id'] for i in items if i['kind'] == 'sink']
        self.procs = [i['id'] for i in items if i['kind'] == 'processor']
        self.maints = [i['id'] for i in items if i['kind'] == 'maintainer']
        self.resources = sorted(ctx.spec.get('resources', {}))
        self.n_recv = self.n_fin = self.n_hooks = self.n_script = 0
        self.n_gen_views = 0
        self.n_sched = 0
        self.scheds = {i['id']: i for i in items if i['kind'] == 'scheduler'}
        self.sched_rounds = {sid: [] for sid in self.scheds}
        self.occ = {}            # (label, sub) -> occurrences seen on the independent channel
        self.src_prev = {s: None for s in self.sources}
        self.sink_leaves = {k: 0 for k in self.sinks}
        self.dispatch_log = []   # of traced runs
        self.tracing = False
        self.labels_seen = set()
        self.n_fail_seen = {}
        self.n_prod_seen = {}
        # statistics discarded in place by the user between two runs: what each cleared table must be measured from
        self.n_clear = 0
        self.drained_head = None
        self.level_base = {}       # buffer -> level() when its records were discarded
        self.res_base = {}         # pool -> (usage, capacity) when its records were discarded
        self.src_base = {s: 0 for s in self.sources}

    # ---- hooks that run at the moment of the record -----------------------------------------
    def datapoint(self, env, label, sub, dp):
        ctx, m = self.ctx, self.m
        self.labels_seen.add(label)
        now = env.now
        if label in ('received_part', 'produced_part', 'supplied_new_part', 'device_failure', 'enter_queue',
                     'start_work_order', 'finish_work_order', 'level', 'resource_update', 'schedule_update'):
            if dp[0] != now:
                ctx.report('record_time', f'{label}[{sub}] record {dp} written at {now!r}')
                return
            ctx.count('record_time_checks')
        dev = m.devs.get(sub)
        if dev is None:
            return
        if label == 'received_part':
            p = dev._part
            if p is None or dp[1:] != (p.id, p.quality, p.value):
                ctx.report('record_content', f'received_part[{sub}] {dp} but the part is '
                           f'{None if p is None else (p.id, p.quality, p.value)}')
                return
            ctx.count('record_content_checks')
        elif label == 'produced_part':
            p = dev._output
            if p is None or dp[1:] != (p.id, p.quality, p.value):
                ctx.report('record_content', f'produced_part[{sub}] {dp} but the part is '
                           f'{None if p is None else (p.id, p.quality, p.value)}')
                return
            ctx.count('record_content_checks')

    def run_begin(self, env, t0, d):
        self.tracing = env._trace

    def dispatch(self, ev):
        if self.m.env._trace:
            self.dispatch_log.append({'time': self.m.env.now, 'asset_id': ev.asset_id,
                                      'action': action_name(ev.action), 'event_type': ev.event_type})

    def run_end(self, env, t0, d):
        if not env._trace:
            return
        path = os.path.expanduser(f'~/Downloads/{env.name}_trace.json')
        try:
            data = json.load(open(path))
        except Exception as e:
            self.ctx.report('trace_export', f'trace file {path} not readable after a traced run: {e!r}')
            return
        got = [data[str(i)] for i in range(len(data))] if all(str(i) in data for i in range(len(data))) else None
        if got is None or len(got) != len(self.dispatch_log):
            self.ctx.report('trace_content', f'trace lists {len(data)} events, {len(self.dispatch_log)} were '
                            f'dispatched during traced runs')
            return
        for k, (g, w) in enumerate(zip(got, self.dispatch_log)):
            if (g['time'], g['asset_id'], g['action'], float(g['event_type'])) != \
                    (w['time'], w['asset_id'], w['action'], float(w['event_type'])):
                self.ctx.report('trace_content', f'trace entry {k} is {g}, dispatched was {w}')
                return
        self.ctx.count('trace_entries_compared', len(got))
        self.ctx.count('traced_runs')

    # ---- after every event ------------------------------------------------------------------------
    def bump(self, label, sub, n=1):
        self.occ[(label, sub)] = self.occ.get((label, sub), 0) + n

    def discarded(self, label):
        m = self.m
        rm = m.world.rm
        if label in (None, 'level'):
            self.level_base = {b: m.devs[b].level() for b in self.buffers}
        if label in (None, 'resource_update'):
            self.res_base = {r: (rm.get_resource_usage(r), rm.get_resource_capacity(r)) for r in self.resources}
        if label in (None, 'supplied_new_part'):
            self.src_base = {s: m.devs[s].produced_parts for s in self.sources}
        if label in (None, 'schedule_update'):
            self.sched_rounds = {sid: [] for sid in self.scheds}
        if label in (None, 'device_failure'):
            self.n_fail_seen = {}
        if label in (None, 'produced_part'):
            self.n_prod_seen = {}
        for key in list(self.occ):
            if label is None or key[0] == label:
                del self.occ[key]
        self.ctx.count('statistics_discarded_in_place')

    def on_event(self, env, head):
        ctx, m = self.ctx, self.m
        log = m.log
        data = env.simulation_data
        cen = ctx.census
        cleared_now = []
        while self.n_clear < len(log.script):
            t, op, out, ser = log.script[self.n_clear]
            self.n_clear += 1
            if op['op'] == 'clear_data':
                cleared_now.append(op.get('label'))
        if cleared_now:
            # the operation is a boundary of its own: nothing else happened since the previous one, so the
            # occurrence channels are drained first and every count restarts from here
            self.drain(env, head)
            for label in cleared_now:
                self.discarded(label)
        for b in self.buffers:
            recs = data.get('level', {}).get(b)
            last = recs[-1][1] if recs else self.level_base.get(b, 0)
            if last != m.devs[b].level():
                ctx.report('level_record', f'buffer {b}: last level record {last}, level() {m.devs[b].level()}')
                return
            ctx.count('level_record_checks')
        rm = m.world.rm
        for r in self.resources:
            recs = data.get('resource_update', {}).get(r)
            if recs is None and ctx.spec['resources'].get(r) == 0 and rm.get_resource_capacity(r) == 0 \
                    and rm.get_resource_usage(r) == 0:
                continue            # a pool that has not been created yet (initial capacity 0)
            if recs is None and r in self.res_base:
                if self.res_base[r] != (rm.get_resource_usage(r), rm.get_resource_capacity(r)):
                    ctx.report('resource_record', f'resource {r}: no record since the statistics were discarded at '
                               f'{self.res_base[r]}, pool ({rm.get_resource_usage(r)}, {rm.get_resource_capacity(r)})')
                    return
                continue
            if recs is None:
                ctx.report('resource_record', f'resource {r}: no resource_update record at all')
                return
            if recs[-1][1:] != (rm.get_resource_usage(r), rm.get_resource_capacity(r)):
                ctx.report('resource_record', f'resource {r}: last record {recs[-1]}, pool '
                           f'({rm.get_resource_usage(r)}, {rm.get_resource_capacity(r)})')
                return
            ctx.count('resource_record_checks')
        # content of the failure and produced records written during this event
        prev = ctx.prev_census
        for pr in self.procs:
            recs = data.get('device_failure', {}).get(pr, [])
            k0 = self.n_fail_seen.get(pr, 0)
            for dp in recs[k0:]:
                lost = prev.slots[pr]['in'] if prev is not None else None
                if dp != (env.now, lost.id if lost is not None else None):
                    ctx.report('record_content', f'device_failure[{pr}] {dp} but the part in process was '
                               f'{getattr(lost, "name", None)} (id {getattr(lost, "id", None)}) at {env.now!r}')
                    return
                ctx.count('record_content_checks')
            self.n_fail_seen[pr] = len(recs)
            recs = data.get('produced_part', {}).get(pr, [])
            k0 = self.n_prod_seen.get(pr, 0)
            for dp in recs[k0:]:
                out = cen.slots[pr]['out']
                if out is None or dp[1:] != (out.id, out.quality, out.value):
                    ctx.report('record_content', f'produced_part[{pr}] {dp} but the finished part is '
                               f'{None if out is None else (out.id, out.quality, out.value)} after the event')
                    return
                ctx.count('record_content_checks')
            self.n_prod_seen[pr] = len(recs)
        self.drain(env, head)
        for sid, rounds in self.sched_rounds.items():
            recs = data.get('schedule_update', {}).get(sid, [])
            if [(r[0], r[1]) for r in recs] != [(r[0], r[1]) for r in rounds]:
                ctx.report('schedule_record', f'schedule_update[{sid}] records {recs[-3:]} ({len(recs)}), action rounds '
                           f'seen {[(r[0], r[1]) for r in rounds][-3:]} ({len(rounds)})')
                return
            ctx.count('schedule_record_checks')
        for label in ('received_part', 'produced_part', 'supplied_new_part', 'device_failure', 'enter_queue',
                      'start_work_order', 'finish_work_order'):
            table = data.get(label, {})
            subs = set(table) | {s for (l, s) in self.occ if l == label}
            for sub in subs:
                n_rec = len(table.get(sub, []))
                n_occ = self.occ.get((label, sub), 0)
                if n_rec != n_occ:
                    ctx.report('record_count', f'{label}[{sub}]: {n_rec} records, {n_occ} occurrences '
                               f'(at {env.now!r})')
                    return
                ctx.count('record_count_checks')
        for s_id in self.sources:
            n = len(data.get('supplied_new_part', {}).get(s_id, []))
            if m.devs[s_id].produced_parts - self.src_base[s_id] != n:
                ctx.report('source_counter', f'source {s_id}: produced_parts {m.devs[s_id].produced_parts} '
                           f'({self.src_base[s_id]} when the statistics were last discarded), {n} supplied_new_part '
                           f'records')
                return
        for k in self.sinks:
            if m.devs[k].received_parts_count != self.sink_leaves[k]:
                ctx.report('sink_counter', f'sink {k}: received_parts_count {m.devs[k].received_parts_count}, '
                           f'{self.sink_leaves[k]} parts in {len(data.get("received_part", {}).get(k, []))} records')
                return

    def drain(self, env, head):
        """Occurrences on the independent channels (idempotent: every channel has its own cursor)."""
        ctx, m = self.ctx, self.m
        log = m.log
        cen = ctx.census
        gv = getattr(log, 'gen_views', None)
        while isinstance(gv, list) and self.n_gen_views < len(gv):
            sid, k, produced, val, cost, nrec, last_rec_id, prev_id = gv[self.n_gen_views]
            self.n_gen_views += 1
            # while the generator hook makes part k, the k-1 parts before it have been supplied, counted and recorded
            # (the number of records is not compared: a user may have cleared the series)
            if produced != k - 1:
                ctx.report('counter', f'source {sid}: while its generator made part {k} the source showed '
                           f'produced_parts {produced!r} ({k - 1} parts had been handed over)')
                return
            # ... and the newest supplied_new_part record (if the user has not emptied the series) is that of part k-1
            if k > 1 and nrec and prev_id is not None and last_rec_id != prev_id:
                ctx.report('record_count', f'source {sid}: while its generator made part {k} the newest supplied_new_part '
                           f'record named part id {last_rec_id!r}; part {k - 1} (id {prev_id!r}), which had been handed '
                           f'over, was not recorded yet')
                return
            ctx.count('source_counters_read_inside_the_generator_hook')
        while self.n_recv < len(log.receives):
            t, did, part, ct, ser, lvs, val = log.receives[self.n_recv]
            self.n_recv += 1
            self.bump('received_part', did)
            if did in self.sink_leaves:
                self.sink_leaves[did] += len(lvs)
        while self.n_fin < len(log.finishes):
            t, did, part, ser = log.finishes[self.n_fin]
            self.n_fin += 1
            self.bump('produced_part', did)
        while self.n_hooks < len(log.hooks):
            t, did, what, tag, ser = log.hooks[self.n_hooks]
            self.n_hooks += 1
            if self.maints:
                self.bump('start_work_order' if what == 'start' else 'finish_work_order', self.maints[0])
        while self.n_script < len(log.script):
            t, op, out, ser = log.script[self.n_script]
            self.n_script += 1
            if op['op'] == 'work_order' and out is True:
                self.bump('enter_queue', op['maint'])
        if head is not None and head is not self.drained_head and not head.cancelled \
                and action_name(head.action) == '_fail':
            self.bump('device_failure', ctx.dev_id(action_owner(head.action)))
        self.drained_head = head
        # schedule records: one per action round seen through the override action of the registered devices
        while self.n_sched < len(log.sched_calls):
            t, sid, obj, targ, state, ser = log.sched_calls[self.n_sched]
            self.n_sched += 1
            rounds = self.sched_rounds[sid]
            if not rounds or rounds[-1][2] != ser or rounds[-1][3] == obj:
                rounds.append((t, state, ser, obj))
        for s_id in self.sources:
            out = cen.slots[s_id]['out']
            po = self.src_prev[s_id]
            if po is not None and out is not po:
                self.bump('supplied_new_part', s_id)
            self.src_prev[s_id] = out

    def features(self):
        return {'labels': len(self.labels_seen), 'label_set': sorted(self.labels_seen)}
