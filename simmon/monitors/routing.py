"""C08 - routing fidelity: parts follow the configured routes and their
routing history says so.  The route graph comes from the specification (plus
the rewiring operations the script has performed), never from the objects."""
from . import register
from ..census import leaves_of
from .. import modelgen


def uid(p):
    return getattr(p, 'huid', None) or 'anon:%d' % id(p)


@register('routing')
class Routing:
    def __init__(self, ctx):
        self.ctx = ctx
        self.m = ctx.model
        items = ctx.spec['items']
        self.kind = {i['id']: i['kind'] for i in items}
        self.pred = {i['id']: i['pred'] for i in items if i['kind'] == 'gate'}
        self.up = {i['id']: list(i.get('up', [])) for i in items if 'up' in i or i['kind'] == 'source'}
        self.members = {i['id']: i['members'] for i in items if i['kind'] == 'group'}
        self.path_group = {i['id']: i['group'] for i in items if i['kind'] == 'path'}
        self.last_of = {}
        self.inputs = {}
        for i in items:
            if i['kind'] != 'group':
                continue
            g, mem = i['id'], i['members']
            self.inputs[g] = i.get('inputs') or mem[:1]
            for o in (i.get('outputs') or mem[-1:]):
                self.last_of[o] = g
        self.hist_len = {}
        self.state = {}          # part uid -> (validated length, open-path stack after it)
        self.blocked = {d: False for d in self.m.devs}
        self.n_script = self.n_recv = self.n_gate = 0
        self.sink_order = {i['id']: [] for i in items if i['kind'] == 'sink'}
        self.group_exits = 0
        self.histories = 0
        self.judged = 0
        self.not_judged = 0
        self.refused_then_ok = 0
        # idle-longest bookkeeping for plain single-slot devices
        self.single = {i['id'] for i in items if i['kind'] in ('handler', 'processor', 'sink')}
        self.empty_since = {d: 0 for d in self.single}
        self.clean = {d: True for d in self.single}      # nothing disturbed its idle stamp since it emptied
        self.was_empty = {d: True for d in self.single}
        self.was_oper = {d: True for d in self.single}
        self.held_prev = {}
        self.pool_prev = {}
        self.down = {d: False for d in self.single}

    # -- route walk -----------------------------------------------------------------------
    def walk(self, h, start=1, stack=None):
        """Validate the steps h[start-1] -> h[start] ... against the route graph AS IT IS NOW (earlier steps were
        validated when they were made; connections may have been removed since).
        -> (error or None, stack of open paths, number of group exits)"""
        kind = self.kind
        if not h:
            return 'empty history', [], 0
        if start <= 1:
            if h[0] is None or kind.get(h[0]) != 'source':
                return f'history does not start at a source: {h[:3]}', [], 0
            stack = []
            start = 1
        else:
            stack = list(stack)
        exits = 0
        for i in range(start, len(h)):
            prev, cur = h[i - 1], h[i]
            if cur is None:
                return f'unknown device at position {i}', stack, exits
            if kind[prev] == 'path':
                first = self.inputs[self.path_group[prev]]
                if cur not in first:
                    return (f'after entering path {prev} the part must be in {first} (input device of the '
                            f'group), history says {cur}'), stack, exits
            else:
                pos = prev
                while pos in self.last_of:
                    g = self.last_of[pos]
                    if not stack or self.path_group[stack[-1]] != g:
                        return (f'part left group {g} after {pos} but the open paths are {stack}'), stack, exits
                    pos = stack.pop()
                    exits += 1
                if pos not in self.up.get(cur, []):
                    if pos != prev:
                        return (f'part entered group through path {pos} but left it to {cur}, which is not a '
                                f'downstream of that path (position {i})'), stack, exits
                    return f'{prev} -> {cur} is not a configured connection (position {i})', stack, exits
            if kind[cur] == 'path':
                stack.append(cur)
        return None, stack, exits

    def ids(self, part):
        idof = self.m.id_of
        return [idof.get(id(d)) for d in part._routing_history]

    # -- per event -----------------------------------------------------------------------------
    def on_event(self, env, head):
        ctx, m = self.ctx, self.m
        log = m.log
        cen = ctx.census
        prev = ctx.prev_census
        now = env.now
        rewired = set()
        script_op = None
        while self.n_script < len(log.script):
            t, op, out, ser = log.script[self.n_script]
            self.n_script += 1
            script_op = op
            if op['op'] == 'new_collected':
                # the sinks were given fresh lists: what arrives from now on is collected there, in arrival order;
                # the lists set aside keep what they held
                for k in self.sink_order:
                    if m.devs[k]._collect_parts:
                        self.sink_order[k] = []
                ctx.count('fresh_collected_lists')
            if op['op'] in ('detach', 'reattach', 'rewire_many'):
                # (a connection change restarts the device's idle clock)
                rewired.add(op['target'])
            if op['op'] == 'rewire':
                rewired.add(op['target'])
                if out == 'added':
                    self.up[op['target']].append(op['new_up'])
            if op['op'] == 'rewire_remove' and isinstance(out, str) and out.startswith('removed:'):
                rewired.add(op['target'])
                gone = out.split(':', 1)[1]
                if gone in self.up[op['target']]:
                    self.up[op['target']].remove(gone)
                ctx.count('connections_removed')
        gate_true = {}
        while self.n_gate < len(log.gate_calls):
            gname, part, res = log.gate_calls[self.n_gate]
            self.n_gate += 1
            if res:
                gate_true.setdefault(gname, []).append(part)
            ctx.count('gate_evaluations')
        blocked_now = {d: dev.block_input for d, dev in m.devs.items() if hasattr(dev, 'block_input')}
        received_now = []
        while self.n_recv < len(log.receives):
            t, did, part, ct, ser, lvs, val = log.receives[self.n_recv]
            views = getattr(log, 'receive_views', None)
            v = views[self.n_recv] if isinstance(views, list) and self.n_recv < len(views) else None
            self.n_recv += 1
            if v and 'hist_last_is_dev' in v:
                # what the receive callback could read: the part's history already ends with the receiving device
                if not v['hist_last_is_dev']:
                    ctx.report('history', f'inside the receive callback of {did} at {t} the routing history of '
                               f'{part.name} ended with {v.get("hist_names")} - the receiving device was not in it yet')
                    return
                ctx.count('histories_read_inside_a_receive_callback')
            received_now.append((did, part))
            if did in self.sink_order:
                self.sink_order[did].append(part)
        # 1. histories of all live leaves (and of the parts received by sinks in this event)
        todo = []
        for did, s in cen.slots.items():
            if self.kind[did] == 'sink':
                continue
            for slot, val in s.items():
                if val is None:
                    continue
                for top in (val if slot == 'buf' else [val]):
                    for leaf in leaves_of(top):
                        todo.append((leaf, did, top))
        for did, part in received_now:
            if self.kind[did] == 'sink':
                for leaf in leaves_of(part):
                    todo.append((leaf, did, part))
        for leaf, holder, top in todo:
            h = self.ids(leaf)
            u = uid(leaf)
            old = self.hist_len.get(u, 0)
            if len(h) == old:
                continue        # unchanged since it was validated
            self.histories += 1
            ctx.count('histories_validated')
            if len(h) < old:
                ctx.report('history_shrank', f'part {u}: routing history had {old} entries, now {h}')
                return
            st = self.state.get(u)
            if st is not None and old >= 1 and st[0] == old:
                err, stack, exits = self.walk(h, old, st[1])
            else:
                err, stack, exits = self.walk(h)
            if err:
                ctx.report('route', f'part {u} held by {holder}: {err}; history {h}')
                return
            if h[-1] != holder:
                ctx.report('history_holder', f'part {u} is held by {holder} but its history ends with {h[-1]}: {h}')
                return
            # a batch carries the open-path stack for the parts it contains
            real_stack = [m.id_of.get(id(p)) for p in top._group_pathing]
            if real_stack != stack:
                ctx.report('path_stack', f'part {u} at {holder}: open group paths {real_stack}, history implies '
                           f'{stack}: {h}')
                return
            for d in h[old:]:
                k = self.kind[d]
                if k == 'gate':
                    cands = gate_true.get(d, [])
                    if not any(c is leaf or c is top or (getattr(c, 'parts', None) and leaf in c.parts) for c in cands):
                        # the predicate was not (re-)evaluated to True in this event; that alone refutes nothing,
                        # so the monitor evaluates the configured predicate on the part as it is now
                        if d in self.pred and modelgen.eval_pred(self.pred[d], top):
                            ctx.count('gate_pass_without_evaluation_but_acceptable')
                            continue
                        ctx.report('gate', f'part {u} passed gate {d} at {now!r} without its predicate accepting it')
                        return
                    ctx.count('gate_passages_checked')
                if self.blocked.get(d) and blocked_now.get(d):
                    ctx.report('blocked_input', f'part {u} entered {d} at {now!r} although its input is blocked')
                    return
            self.group_exits += exits
            ctx.count('group_exits', exits)
            self.hist_len[u] = len(h)
            self.state[u] = (len(h), list(stack))
        # 2. sinks collect in arrival order
        for k, order in self.sink_order.items():
            dev = m.devs[k]
            if dev._collect_parts:
                cp = dev.collected_parts
                if len(cp) != len(order) or any(a is not b for a, b in zip(cp, order)):
                    ctx.report('collected_order', f'sink {k}: collected_parts {[p.name for p in cp][-5:]} vs '
                               f'arrival order {[p.name for p in order][-5:]}')
                    return
                ctx.count('collected_lists_checked')
        for dev, lst, snap in getattr(m.world, 'set_aside', []) if hasattr(m, 'world') else []:
            if len(lst) != len(snap) or any(a is not b for a, b in zip(lst, snap)):
                ctx.report('collected_order', f'sink {dev.name}: the list of collected parts the user set aside (it held '
                           f'{len(snap)} parts) has changed since: {[p.name for p in lst][-5:]}')
                return
        # 3. idle-longest among parallel plain single-slot candidates
        if prev is not None:
            self.idle_longest(env, received_now, prev, cen, rewired)
        # bookkeeping for the next event
        got = {did for did, _p in received_now}
        for d in self.single:
            dev = m.devs[d]
            s = cen.slots[d]
            empty = s['in'] is None and s['out'] is None
            oper = dev.is_operational()
            if empty and (not self.was_empty[d] or d in got):
                self.empty_since[d] = now
                self.clean[d] = True
            # Shutdown / failure and rewiring restart the idle clock in the library (and arguably should); a blocked
            # input does not: a blocked device that holds nothing is still idle, and stays 'idle since it emptied'.
            if d in rewired or not oper:
                self.clean[d] = False
            elif not self.was_oper.get(d, True) and empty:
                # back in operation and empty: a machine that was down was not idle, it is idle since it came back
                self.empty_since[d] = now
                self.clean[d] = True
                ctx.count('idle_clocks_restarted_at_restoration')
            self.was_oper[d] = oper
            self.was_empty[d] = empty
            if m.items.get(d, {}).get('res'):
                self.held_prev[d] = getattr(dev, '_reserved_resources', None) is not None
        rm = m.world.rm
        if rm is not None:
            self.pool_prev = {r: (rm.get_resource_usage(r), rm.get_resource_capacity(r))
                              for r in ctx.spec.get('resources', {})}
        self.blocked = blocked_now

    def idle_longest(self, env, received_now, prev, cen, rewired):
        """Judge every hand-over of a single part from a holder to one of its direct plain single-slot
        downstreams.  A buffer may release several parts in ONE event: the hand-overs are replayed in
        order, the idle stamps being updated after each (a receiver is busy afterwards; a zero-cycle sink
        is free again at once but idle only since now)."""
        ctx, m = self.ctx, self.m
        now = env.now
        moves = {}
        unlocated = set()
        for did, part in received_now:
            if did not in self.single:
                continue
            # a batch handed over in the same event is replayed (it occupies its receiver) but not judged
            lv = leaves_of(part)
            loc = prev.loc.get(uid(lv[0])) if lv else None
            if loc is None:
                unlocated.add(did)      # e.g. an empty batch: its sender and its place in the order are unknown
                continue
            moves.setdefault(loc[0], []).append((did, part))
        for sender, lst in moves.items():
            if len(lst) > 1 and self.kind.get(sender) != 'buffer':
                continue
            sdev = m.devs[sender]
            # the candidates: the sender's direct single-slot downstreams and those behind plain pass-through
            # devices (controllers, accept-all gates), which rank by the longest-idle device behind them - choosing
            # level by level picks the longest-idle free device overall
            direct = []
            through = False
            unresolved = False

            def collect(node, depth):
                nonlocal through, unresolved
                for d in node._downstream:
                    c = m.id_of.get(id(d))
                    k = self.kind.get(c)
                    if c in self.single:
                        if c in direct:
                            unresolved = True
                        if depth > 0 and (self.blocked.get(c) or getattr(d, 'block_input', False)
                                          or m.items.get(c, {}).get('res')):
                            # a pass-through device ranks by the longest-waiting device behind it, also when that one
                            # will refuse (blocked input, exhausted pool): the level-by-level choice is then not the
                            # choice among the devices able to take the part, and is not judged
                            unresolved = True
                        direct.append(c)
                    elif depth < 2 and c not in rewired and (
                            k == 'flow' or (k == 'gate' and self.pred.get(c, {}).get('t') == 'always')):
                        if self.blocked.get(c) or getattr(d, 'block_input', False):
                            if depth > 0:
                                # closed, but the pass-through above it still ranks by what waits behind it
                                unresolved = True
                            continue            # closed: nothing behind it can take the part
                        through = True
                        collect(d, depth + 1)
                    else:
                        unresolved = True       # a buffer / batcher / group path / deciding gate competes
                        direct.append(c)
            collect(sdev, 0)
            if any(c in unlocated for c in direct):
                ctx.count('idle_longest_not_judged')
                continue
            # state of the candidates at the moment of each hand-over
            busy = {}
            since = {}
            for c in direct:
                if c in self.single:
                    ps = prev.slots[c]
                    busy[c] = ps['in'] is not None or ps['out'] is not None or not self.was_empty[c]
                    since[c] = self.empty_since[c]
            for recv, part in lst:
                if recv not in direct:
                    break
                cands = []
                ambiguous = unresolved
                for c in direct:
                    if c not in self.single:
                        ambiguous = True      # a pass-through / buffer / batcher competes: not the stated situation
                        continue
                    if busy[c] or self.blocked.get(c):
                        continue
                    it = m.items[c]
                    if it['kind'] == 'processor' and it.get('res'):
                        # a pool user is 'able to take a part' only if its pools had room for it (or it still held its
                        # reservation) at the previous boundary; several hand-overs in one event are not untangled
                        if len(lst) > 1:
                            ambiguous = True
                            continue
                        if not self.held_prev.get(c):
                            if any(a and self.pool_prev.get(r, (0, 0))[1] - self.pool_prev.get(r, (0, 0))[0] < a
                                   for r, a in it['res'].items()):
                                continue        # starved: not a candidate
                            users = [x for x in direct if x != c and m.items.get(x, {}).get('res')]
                            if users:
                                ambiguous = True     # (two pool users competing for the same hand-over)
                                continue
                    if not self.clean[c] or c in rewired or sender in rewired:
                        ambiguous = True
                        continue
                    cands.append(c)
                judged = False
                if getattr(part, 'parts', None) is not None:
                    ctx.count('idle_longest_batch_hand_overs_replayed')
                elif recv in cands and len(cands) >= 2 and not ambiguous:
                    best = min(since[c] for c in cands)
                    winners = [c for c in cands if since[c] == best]
                    if len(winners) > 1 and recv in winners:
                        self.not_judged += 1
                        ctx.count('idle_longest_ties')
                    else:
                        judged = True
                        self.judged += 1
                        ctx.count('idle_longest_judged')
                        if len(lst) > 1:
                            ctx.count('idle_longest_judged_in_multi_release')
                        if through:
                            ctx.count('idle_longest_judged_through_pass_through_devices')
                        if recv not in winners:
                            ctx.report('idle_longest', f'{sender} passed {part.name} to {recv} (idle since '
                                       f'{since[recv]!r}) at {now!r} although {winners} has been idle since {best!r}')
                            return
                elif len(direct) >= 2:
                    self.not_judged += 1
                    ctx.count('idle_longest_not_judged')
                # the receiver's state after this hand-over
                if recv in busy:
                    it = m.items[recv]
                    if it['kind'] == 'sink' and it.get('ct', 0) == 0:
                        busy[recv] = False
                        since[recv] = now
                    else:
                        busy[recv] = True

    def features(self):
        return {'group_exits': self.group_exits, 'idle_judged': self.judged, 'histories': self.histories}
