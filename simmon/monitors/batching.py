"""C17 - batching keeps order and exact batch sizes."""
from . import register
from ..census import leaves_of, units_of, descendants_of


def uid(p):
    return getattr(p, 'huid', None) or 'anon:%d' % id(p)


@register('batching')
class Batching:
    def __init__(self, ctx):
        self.ctx = ctx
        self.m = ctx.model
        self.batchers = {i['id']: i.get('size') for i in ctx.spec['items'] if i['kind'] == 'batcher'}
        # (units: the direct members of a batch - themselves batches when pallets of boxes travel - or the part itself;
        #  a batcher takes its input apart and builds its output unit by unit)
        self.arrived = {b: [] for b in self.batchers}       # unit uids in arrival order
        self.emitted = {b: [] for b in self.batchers}       # unit uids in emission order
        self.prev_out = {b: (None, []) for b in self.batchers}
        self.n_recv = 0
        self.outputs = 0
        self.split_inputs = 0
        self.empty_inputs = 0
        self.prefix = {}
        self.seen_hist = {}

    def on_event(self, env, head):
        ctx, m = self.ctx, self.m
        log = m.log
        prev_cen = ctx.prev_census
        while self.n_recv < len(log.receives):
            t, did, part, ct, ser, lvs, val = log.receives[self.n_recv]
            lvs = log.receive_units[self.n_recv]
            self.n_recv += 1
            if did in self.batchers:
                if prev_cen is not None:
                    s = prev_cen.slots[did]
                    if s['in'] is not None or s['out'] is not None:
                        ctx.report('accept_while_busy', f'batcher {did} accepted {part.name} at {t} while it still '
                                   f'had input to unpack ({getattr(s["in"], "name", None)}) or an output waiting '
                                   f'({getattr(s["out"], "name", None)})')
                        return
                if getattr(part, 'parts', None) is not None and not lvs:
                    self.empty_inputs += 1
                    ctx.count('empty_batches_consumed')
                self.arrived[did].extend(uid(x) for x in lvs)
        for b, size in self.batchers.items():
            dev = m.devs[b]
            out = dev._output
            pobj, pleaves = self.prev_out[b]
            if pobj is not None and out is not pobj:
                # the previous output has been emitted
                self.outputs += 1
                ctx.count('batcher_outputs')
                is_batch = getattr(pobj, 'parts', None) is not None
                if size is None:
                    # (a box that arrived inside a pallet leaves a single-part batcher as it is)
                    if is_batch and uid(pobj) not in self.arrived[b]:
                        ctx.report('batch_in_single_mode', f'batcher {b} (single-part mode) emitted a Batch '
                                   f'{pobj.name}')
                        return
                else:
                    if not is_batch or len(pleaves) != size:
                        ctx.report('batch_size', f'batcher {b} (size {size}) emitted {pobj.name} with '
                                   f'{len(pleaves)} parts')
                        return
                self.emitted[b].extend(pleaves)
            # (in single-part mode the output IS the unit - possibly an inner batch -, else a batch built of units)
            cur_leaves = [uid(x) for x in (units_of(out) if size is not None else [out])] if out is not None else []
            self.prev_out[b] = (out, cur_leaves)
            if not hasattr(dev, '_in_progress_batch'):
                ctx.count('batcher_internals_not_visible')
                continue
            wip = dev._in_progress_batch
            wip_leaves = [uid(x) for x in units_of(wip)] if wip is not None else []
            inp = dev._part
            in_leaves = [uid(x) for x in units_of(inp)] if inp is not None else []
            if inp is not None and getattr(inp, 'parts', None) is not None and not in_leaves:
                ctx.report('empty_input_retained', f'batcher {b} keeps the completely unpacked (empty) input batch '
                           f'{inp.name} in its input slot, so it will never accept again')
                return
            inside = cur_leaves + wip_leaves + in_leaves
            seq = self.emitted[b] + inside
            scrapped = getattr(log, 'scrapped', None)
            if scrapped:
                # (units the user took out of a lot that was still being unpacked never leave; nothing else changes)
                self.arrived[b] = [u for u in self.arrived[b] if u not in scrapped]
                ctx.count('batcher_checks_after_a_scrapped_lot')
            if seq != self.arrived[b]:
                k = next((i for i in range(min(len(seq), len(self.arrived[b]))) if seq[i] != self.arrived[b][i]),
                         min(len(seq), len(self.arrived[b])))
                ctx.report('order', f'batcher {b}: parts leaving+inside differ from parts arrived at position {k}: '
                           f'out/in {seq[max(0, k - 2):k + 3]} vs arrived {self.arrived[b][max(0, k - 2):k + 3]} '
                           f'(emitted {len(self.emitted[b])}, inside {len(inside)}, arrived {len(self.arrived[b])})')
                return
            if size is not None and len(wip_leaves) >= size:
                ctx.report('batch_size', f'batcher {b}: batch under construction has {len(wip_leaves)} >= {size}')
                return
            ctx.count('batcher_checks')
        cen = ctx.census
        # what a part's routing history recorded at one event boundary stays its prefix at every later one (entries
        # of refused hand-overs come and go within an event)
        for did, s in cen.slots.items():
            for slot, val in s.items():
                if val is None:
                    continue
                for top in (val if slot == 'buf' else [val]):
                    for p in leaves_of(top):
                        ph = p._routing_history
                        old = self.seen_hist.get(id(p))
                        if old is not None and (len(ph) < len(old[1]) or any(x is not y for x, y in zip(ph, old[1]))):
                            ctx.report('history_lost_entries', f'part {p.name} held by {did}: routing history was '
                                       f'{[d.name for d in old[1]]}, now {[d.name for d in ph]}')
                            return
                        self.seen_hist[id(p)] = (p, list(ph))
                        ctx.count('part_history_prefix_checks')
        # a held batch's own routing history is a suffix of every contained part's
        for did, s in cen.slots.items():
            for slot, val in s.items():
                if val is None:
                    continue
                tops = val if slot == 'buf' else [val]
                for top in tops:
                    parts = getattr(top, 'parts', None)
                    if parts is None:
                        continue
                    h = top._routing_history
                    for p in descendants_of(top):
                        ph = p._routing_history
                        # every update of the batch's history must have been applied to the part as it is:
                        # what the part's history was when it joined stays its prefix, the rest is the batch's
                        key = (id(top), id(p))
                        rec = self.prefix.get(key)
                        off = 0
                        if rec is None:
                            if ':ins' in uid(p) and len(ph) < len(h):
                                # put into the batch by hand: what the batch recorded before does not concern it
                                self.prefix[key] = (list(ph), len(h))
                                off = len(h)
                            elif len(ph) >= len(h):
                                self.prefix[key] = (list(ph[:len(ph) - len(h)]), 0)
                        else:
                            pre, off = rec
                            own = list(h[off:])
                            if len(ph) != len(pre) + len(own) or any(x is not y for x, y in zip(ph, pre + own)):
                                ctx.report('batch_history', f'batch {top.name} at {did}: part {p.name} history '
                                           f'{[d.name for d in ph]} is not its history when it joined the batch '
                                           f'{[d.name for d in pre]} followed by the batch\'s {[d.name for d in own]}')
                                return
                        if off:
                            continue
                        if len(ph) < len(h) or any(x is not y for x, y in zip(ph[len(ph) - len(h):], h)):
                            ctx.report('batch_history', f'batch {top.name} at {did}: history '
                                       f'{[d.name for d in h]} is not a suffix of part {p.name} history '
                                       f'{[d.name for d in ph]}')
                            return
                    ctx.count('batch_history_checks')
                    if any(getattr(q, 'parts', None) is not None for q in parts):
                        ctx.count('nested_batch_history_checks')

    def features(self):
        # an input batch split across two output batches: arrivals not aligned with emissions
        return {'batcher_outputs': self.outputs, 'empty_inputs': self.empty_inputs,
                'lots_scrapped_during_a_hand_over': getattr(self.m.log, 'scrap_events', 0)}
