"""C06 - cycle times are honoured exactly, one part at a time, across
interruptions.  Operational time is integrated at event boundaries (exact in
a discrete-event simulation, and exact in floating point on the dyadic grid)."""
from . import register


@register('cycles')
class Cycles:
    def __init__(self, ctx):
        self.ctx = ctx
        self.m = ctx.model
        items = ctx.spec['items']
        self.devs = [i['id'] for i in items if i['kind'] in ('handler', 'processor')]
        self.procs = {i['id'] for i in items if i['kind'] == 'processor'}
        self.sources = {i['id']: i['ct'] for i in items if i['kind'] == 'source'}
        self.sinks = {i['id']: i.get('ct', 0) for i in items if i['kind'] == 'sink'}
        # the cycle time each device is CONFIGURED to have, tracked from the specification, the scripted
        # set_cycle operations and the receive-callback schedules - not read back from the library
        self.cfg = {i['id']: i.get('ct', 0) for i in items if i['kind'] in ('handler', 'processor', 'sink')}
        self.ct_script = {i['id']: i['ct_script'] for i in items if i.get('ct_script')}
        self.n_accepts = {d: 0 for d in self.cfg}
        self.cur = {d: None for d in self.devs}
        self.offset = {d: 0 for d in self.devs}
        self.offset.update({k: 0 for k in self.sinks})
        # (one-shot offsets requested before the first run stay pending until the device's first cycle)
        for i in items:
            if i.get('pre_offset') and i['id'] in self.offset:
                self.offset[i['id']] = i['pre_offset']
                ctx.count('offsets_requested_before_the_first_run')
        self.oper = {d: True for d in self.devs}
        self.n_recv = self.n_script = self.n_shut = self.n_fin = 0
        self.n_cb_off = 0
        self.src_prev_out = {s: None for s in self.sources}
        self.src_last_departure = {s: 0 for s in self.sources}     # initialisation instant
        self.sink_last = {}
        self.completed = 0
        self.interrupted_completed = 0
        self.lost_in_process = 0
        self.offsets_applied = 0
        self.ct_changes = 0

    def on_event(self, env, head):
        ctx, m = self.ctx, self.m
        log = m.log
        now = env.now
        cen = ctx.census
        prev = ctx.prev_census
        # 1. scripted one-shot offsets
        while self.n_script < len(log.script):
            t, op, out, ser = log.script[self.n_script]
            self.n_script += 1
            if op['op'] == 'offset_cycle' and op['target'] in self.offset:
                self.offset[op['target']] += op['offset']
            if op['op'] == 'set_cycle' and op['target'] in self.cfg:
                self.cfg[op['target']] = op['ct']
        # lost parts reported in this event
        lost_now = []
        while self.n_shut < len(log.shutdowns):
            t, did, idx, is_failure, part, ser = log.shutdowns[self.n_shut]
            self.n_shut += 1
            if idx == 0 and part is not None:
                lost_now.append((did, part))
        fin_now = []
        while self.n_fin < len(log.finishes):
            t, did, part, ser = log.finishes[self.n_fin]
            self.n_fin += 1
            fin_now.append((did, part))
        # 2. operational transitions (processors)
        for d in self.procs:
            o = cen.oper[d]
            c = self.cur[d]
            if o != self.oper[d]:
                if c is not None:
                    if not o and c['last'] is not None:
                        c['worked'] += now - c['last']
                        c['last'] = None
                        c['interrupted'] = True
                    elif o and c['last'] is None:
                        c['last'] = now
                self.oper[d] = o
        # 3. acceptances
        while self.n_recv < len(log.receives):
            t, did, part, ct_read, ser, lvs, val = log.receives[self.n_recv]
            self.n_recv += 1
            if did in self.cfg:
                if did in self.ct_script:
                    sc = self.ct_script[did]
                    self.cfg[did] = sc[self.n_accepts[did] % len(sc)]
                self.n_accepts[did] += 1
                if ct_read != self.cfg[did]:
                    ctx.report('cycle_time_in_effect', f'{did} accepted {part.name} at {t!r}: its cycle_time is '
                               f'{ct_read!r} but it is configured to {self.cfg[did]!r}')
                    return
            if did in self.sinks:
                last = self.sink_last.get(did)
                if last is not None and t - last[0] < last[1]:
                    ctx.report('sink_cycle', f'sink {did} (cycle time {last[1]!r} in effect at {last[0]!r}) accepted the next '
                               f'part at {t!r}')
                    return
                off = self.offset.get(did, 0)
                self.offset[did] = 0
                self.sink_last[did] = (t, max(0, ct_read + off))
                ctx.count('sink_receipts_checked')
                continue
            if did not in self.cur:
                continue
            if self.cur[did] is not None:
                ctx.report('two_in_process', f'{did} accepted {part.name} at {t!r} while {self.cur[did]["part"].name} '
                           f'(accepted {self.cur[did]["A"]!r}) is still in process')
                return
            if prev is not None:
                s = prev.slots[did]
                if s['in'] is not None or s['out'] is not None:
                    ctx.report('accept_while_busy', f'{did} accepted {part.name} at {t!r} although it held '
                               f'{(s["in"] if s["in"] is not None else s["out"]).name} at the previous event boundary')
                    return
            off = self.offset[did]
            if off:
                self.offsets_applied += 1
            if ct_read != m.items[did]['ct']:
                self.ct_changes += 1
            ct = max(0, ct_read + off)
            self.offset[did] = 0
            self.cur[did] = {'part': part, 'A': t, 'ct': ct, 'worked': 0,
                             'last': t if self.oper.get(did, True) else None, 'interrupted': False}
            if not self.oper.get(did, True):
                ctx.report('accept_while_down', f'{did} accepted {part.name} at {t!r} while not operational')
                return
        # one-shot offsets a processor requested from its own finish callback: they come after the acceptance of
        # the part that finished (possibly in the same event, when the cycle time is 0) and before the next one
        while self.n_cb_off < len(log.cb_offsets):
            t, did, off, ser = log.cb_offsets[self.n_cb_off]
            self.n_cb_off += 1
            if did in self.offset:
                self.offset[did] += off
                ctx.count('offsets_requested_from_finish_callbacks')
        # 4. cycle ends
        for d in self.devs:
            c = self.cur[d]
            if c is None:
                continue
            s = cen.slots[d]
            if s['in'] is c['part']:
                continue
            if s['out'] is c['part']:
                # finished now
                if c['last'] is None:
                    ctx.report('finished_while_down', f'{d} finished {c["part"].name} at {now!r} while shut down')
                    return
                worked = c['worked'] + (now - c['last'])
                if worked != c['ct']:
                    ctx.report('cycle_time', f'{d}: part {c["part"].name} accepted {c["A"]!r} with cycle time '
                               f'{c["ct"]!r} was finished at {now!r} after {worked!r} of operational time '
                               f'({"interrupted" if c["interrupted"] else "uninterrupted"})')
                    return
                if d in self.procs:
                    n = len([1 for (fd, fp) in fin_now if fd == d and fp is c['part']])
                    if n != 1:
                        ctx.report('finish_count', f'{d}: finish callbacks ran {n} times for {c["part"].name}')
                        return
                self.completed += 1
                ctx.count('cycles_completed')
                if c['interrupted']:
                    self.interrupted_completed += 1
                    ctx.count('cycles_completed_after_interruption')
                self.cur[d] = None
            elif any(ld == d and lp is c['part'] for ld, lp in lost_now):
                self.lost_in_process += 1
                ctx.count('cycles_ended_by_failure')
                self.cur[d] = None
            else:
                ctx.report('part_vanished', f'{d}: part {c["part"].name} (accepted {c["A"]!r}) left the input slot '
                           f'at {now!r} without being finished or reported lost')
                return
        for d, p in fin_now:
            # a finish callback for a part that is not the one the monitor saw finishing
            if d in self.procs and cen.slots[d]['out'] is not p:
                ctx.report('finish_count', f'{d}: finish callback for {p.name} but the output slot holds '
                           f'{getattr(cen.slots[d]["out"], "name", None)}')
                return
        # 5. sources: a new part appears exactly one cycle after the previous one left
        for s_id, ct in self.sources.items():
            out = cen.slots[s_id]['out']
            po = self.src_prev_out[s_id]
            if out is not po:
                if po is not None:
                    self.src_last_departure[s_id] = now
                if out is not None:
                    want = self.src_last_departure[s_id] + ct
                    if now != want:
                        ctx.report('source_cycle', f'source {s_id} (cycle {ct!r}): part {out.name} appeared at '
                                   f'{now!r}, previous part left at {self.src_last_departure[s_id]!r}')
                        return
                    ctx.count('source_cycles_checked')
                self.src_prev_out[s_id] = out

    def on_quiescent(self, env, t_next):
        now = env.now
        for d in self.devs:
            c = self.cur[d]
            if c is None or c['last'] is None:
                continue
            due = c['last'] + (c['ct'] - c['worked'])
            if due <= now:
                self.ctx.report('not_finished_in_time', f'{d}: part {c["part"].name} accepted {c["A"]!r} with cycle '
                                f'time {c["ct"]!r} ({c["worked"]!r} worked before the last resume at '
                                f'{c["last"]!r}) is still in process when the clock leaves {now!r}')
                return
        # a source with an empty output slot must be within its cycle
        for s_id, ct in self.sources.items():
            if self.src_prev_out[s_id] is None:
                if self.src_last_departure[s_id] + ct <= now:
                    self.ctx.report('source_cycle', f'source {s_id} (cycle {ct!r}) has no part ready at {now!r} '
                                    f'although the previous one left at {self.src_last_departure[s_id]!r}')
                    return

    def features(self):
        return {'cycles_completed': self.completed, 'interrupted_completed': self.interrupted_completed,
                'lost_in_process': self.lost_in_process, 'offsets_applied': self.offsets_applied,
                'ct_changes': self.ct_changes}
