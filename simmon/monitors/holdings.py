"""C11 - a processor works only while holding exactly the resources it requires."""
from . import register
from ..instrument import action_name, action_owner


@register('holdings')
class Holdings:
    def __init__(self, ctx):
        self.ctx = ctx
        self.m = ctx.model
        self.req = {}
        for i in ctx.spec['items']:
            if i['kind'] == 'processor':
                r = i.get('res')
                self.req[i['id']] = None if r is None else {k: v for k, v in r.items() if v > 0}
        self.resources = sorted(ctx.spec.get('resources', {}))
        self.refused = 0
        self.kept = 0
        self.released_idle = 0
        self.held_prev = {p: None for p in self.req}
        self.in_prev = {p: None for p in self.req}
        self.waiting_seen = 0

    def holdings(self, dev):
        r = dev._reserved_resources
        return None if r is None else r.reserved_resources

    def on_event(self, env, head):
        ctx, m = self.ctx, self.m
        cen = ctx.census
        rm = m.world.rm
        now = env.now
        failing = None
        if head is not None and not head.cancelled and action_name(head.action) == '_fail':
            failing = ctx.dev_id(action_owner(head.action))
        total = {r: 0 for r in self.resources}
        for p, need in self.req.items():
            dev = m.devs[p]
            h = self.holdings(dev)
            s = cen.slots[p]
            if need is None:
                if h is not None:
                    ctx.report('holds_without_requirement', f'{p} declares no resources but holds {h}')
                    return
                continue
            ctx.count('holder_checks')
            if h is not None and h != need:
                ctx.report('holdings_ne_requirements', f'{p} holds {h}, declared requirements {need} (at {now!r})')
                return
            if s['in'] is not None:
                ctx.count('in_process_checks')
                if not cen.oper[p]:
                    ctx.count('in_process_checks_while_shut_down')
                if h is None:
                    ctx.report('processing_without_resources', f'{p} has {s["in"].name} in process at {now!r} '
                               f'without holding its resources {need} (operational={cen.oper[p]})')
                    return
            if failing == p and h is not None:
                ctx.report('failed_still_holds', f'{p} failed at {now!r} and still holds {h}')
                return
            if h is not None:
                for r, a in need.items():
                    total[r] = total.get(r, 0) + a
            # features
            if dev._waiting_for_resources:
                self.waiting_seen += 1
            robj = dev._reserved_resources
            if s['in'] is not None and self.in_prev[p] is not None and s['in'] is not self.in_prev[p] \
                    and robj is not None and robj is self.held_prev[p]:
                self.kept += 1
                ctx.count('reservation_kept_across_consecutive_parts')
            if s['in'] is not None and self.in_prev[p] is None and self.held_prev[p] is not None \
                    and robj is self.held_prev[p]:
                self.kept += 1
                ctx.count('reservation_kept_across_consecutive_parts')
            if robj is None and self.held_prev[p] is not None and failing != p:
                self.released_idle += 1
                ctx.count('reservation_released')
            self.held_prev[p] = robj
            self.in_prev[p] = s['in']
        for r in self.resources:
            u = rm.get_resource_usage(r)
            if u != total.get(r, 0):
                holders = [p for p, need in self.req.items() if need and r in need
                           and m.devs[p]._reserved_resources is not None]
                ctx.report('usage_ne_holders', f'usage({r}) = {u!r} but processors holding reservations '
                           f'({holders}) require {total.get(r, 0)!r} in total (at {now!r})')
                return
            ctx.count('pool_usage_checks')

    def on_quiescent(self, env, t_next):
        m = self.m
        for p, need in self.req.items():
            if not need:
                continue
            dev = m.devs[p]
            if dev.is_operational() and dev._part is None:
                h = self.holdings(dev)
                if h:
                    self.ctx.report('idle_holder', f'{p} is operational and idle at {env.now!r} (clock about to '
                                    f'advance) but holds {h}')
                    return
                self.ctx.count('idle_checks')
            if dev._waiting_for_resources:
                self.refused += 1
                self.ctx.count('processors_waiting_for_resources_at_clock_advance')

    def features(self):
        return {'res_waiting': self.waiting_seen, 'res_kept': self.kept, 'res_released': self.released_idle}
