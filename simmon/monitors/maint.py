"""C12 on whole lines: the maintainer reference model fed with the work orders a
running line issues for real processors (default start_work / end_work =
shutdown / restore), next to failures and scripted shutdowns."""
from . import register
from ..instrument import action_name
from ..build import order_cost


@register('maint')
class MaintLine:
    def __init__(self, ctx):
        from ..props.C12 import RefMaintainer, Order
        self.Order = Order
        self.ctx = ctx
        self.m = ctx.model
        self.maints = [i for i in ctx.spec['items'] if i['kind'] == 'maintainer']
        self.ref = None
        self.mid = None
        if self.maints:
            it = self.maints[0]
            self.mid = it['id']
            self.ref = RefMaintainer(float('inf') if it.get('cap') is None else it['cap'])
        self.n_script = self.n_hooks = 0
        self.norders = 0
        self.started_now = []
        self.selected_now = []
        self.open = {}
        self.completed = 0
        self.overtakes = 0
        self.dups = 0
        self.cost = 0
        self.done = {}

    def on_event(self, env, head):
        if self.ref is None:
            return
        ctx, m, ref = self.ctx, self.m, self.ref
        log = m.log
        now = env.now
        dev = m.devs[self.mid]
        # requests issued by the script in this event
        while self.n_script < len(log.script):
            t, op, out, ser = log.script[self.n_script]
            self.n_script += 1
            if op['op'] != 'work_order':
                continue
            tname, tag = op['target'], op['tag']
            want = not ref.requested(tname, tag)
            if out is not want:
                ctx.report('return_value', f'create_work_order({tname}, {tag}) at {now!r} returned {out!r}; an identical '
                           f'order is {"" if not want else "not "}queued or in progress')
                return
            ctx.count('work_order_requests')
            if not want:
                self.dups += 1
                ctx.count('duplicates_rejected')
                continue
            self.norders += 1
            o = self.Order(self.norders, tname, tag, (m.items[tname].get('wo') or {}).get(tag, [0, 0, 0])[1])
            ref.queue.append(o)
            self.note(ref.scan(now))
        # hooks of this event: starts first, then ends
        ended = []
        while self.n_hooks < len(log.hooks):
            t, did, what, tag, ser = log.hooks[self.n_hooks]
            self.n_hooks += 1
            if what == 'start':
                if did in self.open:
                    ctx.report('two_orders_on_target', f'{did}: order {tag} started at {now!r} while order '
                               f'{self.open[did].tag} is in progress')
                    return
                o = next((a for a in ref.active if a.target == did and a.tag == tag and a.started_at is None), None)
                if o is None:
                    ctx.report('unexpected_start', f'{did}/{tag} started at {now!r} but the reference has not selected it')
                    return
                if o.selected_at != now:
                    ctx.report('start_instant', f'{did}/{tag} selected at {o.selected_at!r}, started at {now!r}')
                    return
                o.started_at = now
                o.duration = (m.items[did].get('wo') or {}).get(tag, [0, 0, 0])[0]
                self.cost += order_cost(m.items[did], tag, self.done.get((did, tag), 0))
                self.open[did] = o
                self.started_now.append(o)
            else:
                o = self.open.pop(did, None)
                if o is None or o.tag != tag:
                    ctx.report('unexpected_end', f'{did}/{tag} ended at {now!r} but is not in progress')
                    return
                if now != o.started_at + o.duration:
                    ctx.report('duration', f'{did}/{tag} started {o.started_at!r} with duration {o.duration!r}, ended '
                               f'{now!r}')
                    return
                ended.append(o)
                self.done[(did, tag)] = self.done.get((did, tag), 0) + 1
                self.completed += 1
                ctx.count('orders_completed')
        for o in ended:
            ref.util -= o.needed
            ref.active.remove(o)
            self.note(ref.scan(now))
        act = sum(a.needed for a in ref.active)
        if dev.available_capacity != dev.total_capacity - act:
            ctx.report('capacity', f'available_capacity {dev.available_capacity!r} != {dev.total_capacity!r} - {act!r}')
            return
        if dev.value != m.items[self.mid].get('value', 0) - self.cost:
            ctx.report('cost', f'maintainer value {dev.value!r}, cost of started orders {self.cost!r}')
            return
        ctx.count('maintainer_checks')

    def note(self, sel):
        for o in sel:
            self.selected_now.append(o)
            if any(q.n < o.n for q in self.ref.queue):
                self.overtakes += 1
                self.ctx.count('overtakes')

    def on_quiescent(self, env, t_next):
        if self.ref is None:
            return
        a = sorted(o.n for o in self.started_now)
        b = sorted(o.n for o in self.selected_now)
        if a != b:
            names = {o.n: (o.target, o.tag) for o in self.started_now + self.selected_now}
            self.ctx.report('starts_per_instant', f'at {env.now!r}: orders started {[names[n] for n in a]}, reference '
                            f'selected {[names[n] for n in b]}')
            return
        self.started_now = []
        self.selected_now = []
        left = self.ref.startable()
        if left:
            self.ctx.report('startable_order_left', f'at {env.now!r} (clock about to advance): queued order '
                            f'{(left[0].target, left[0].tag)} fits the remaining capacity and its target is free')

    def features(self):
        return {'orders_completed': self.completed, 'overtakes': self.overtakes, 'duplicates': self.dups}
