"""C13 - shutdown / failure / restore state machine, lost parts, uptime and
utilisation accounting, callback rounds, default work orders."""
from . import register
from ..instrument import action_name, action_owner


@register('machine')
class Machine:
    def __init__(self, ctx):
        self.ctx = ctx
        self.m = ctx.model
        self.procs = [i['id'] for i in ctx.spec['items'] if i['kind'] == 'processor']
        self.oper = {p: True for p in self.procs}
        self.up = {p: 0 for p in self.procs}
        self.util = {p: 0 for p in self.procs}
        self.t_prev = 0
        self.n_shut = self.n_rest = self.n_hooks = self.n_script = 0
        self.n_fail_rec = {p: 0 for p in self.procs}
        self.orders = {}          # proc -> {'t': start, 'tag':, 'disturbed': bool}
        self.transitions = 0
        self.fail_with_part = 0
        self.fail_with_output = 0
        self.fail_while_down = 0
        self.redundant_calls = 0
        self.orders_judged = 0
        self.late = {}
        self.fail_due = {}
        self.n_ref = 0

    def on_event(self, env, head):
        ctx, m = self.ctx, self.m
        log = m.log
        now = env.now
        cen = ctx.census
        prev = ctx.prev_census
        dt = now - self.t_prev
        self.t_prev = now
        # what kind of event was this?
        failing = None
        if head is not None and not head.cancelled and action_name(head.action) == '_fail':
            failing = ctx.dev_id(action_owner(head.action))
        script_op = None
        while self.n_script < len(log.script):
            t, op, out, ser = log.script[self.n_script]
            self.n_script += 1
            script_op = op
            if op['op'] in ('shutdown', 'restore') and op.get('target') in self.orders:
                self.orders[op['target']]['disturbed'] = True
            if op['op'] == 'create_asset' and op.get('what') == 'processor':
                self.late[out] = t
            if op['op'] == 'fail' and op.get('target') in self.oper:
                # schedule_failure(now): the failure is due at this very instant
                self.fail_due[op['target']] = now
        if failing in self.fail_due:
            del self.fail_due[failing]
        if failing in self.orders:
            self.orders[failing]['disturbed'] = True
        # callback rounds of this event
        shut = {}
        while self.n_shut < len(log.shutdowns):
            t, did, idx, is_failure, part, ser = log.shutdowns[self.n_shut]
            self.n_shut += 1
            shut.setdefault(did, []).append((idx, is_failure, part))
        rest = {}
        while self.n_rest < len(log.restores):
            t, did, idx, ser = log.restores[self.n_rest]
            self.n_rest += 1
            rest.setdefault(did, []).append(idx)
        refused = set()
        while self.n_ref < len(log.refusals):
            refused.add(log.refusals[self.n_ref][1])
            self.n_ref += 1
            ctx.count('planned_stops_refused_by_a_callback')
        for p in refused:
            if p in self.orders:
                self.orders[p]['disturbed'] = True
        hooks = []
        while self.n_hooks < len(log.hooks):
            t, did, what, tag, ser = log.hooks[self.n_hooks]
            self.n_hooks += 1
            hooks.append((did, what, tag))
        # processors created while the clock was already running: never shut down, never fed
        for a in m.world.extra:
            t0 = self.late.get(getattr(a, 'name', None))
            if t0 is None:
                continue
            if a.uptime != now - t0 or a.utilization_time != 0:
                ctx.report('uptime', f'{a.name}, created at {t0!r} and operational ever since: uptime {a.uptime!r}, '
                           f'utilization_time {a.utilization_time!r} at {now!r}')
                return
            ctx.count('late_processor_accounting_checks')
        for p in self.procs:
            dev = m.devs[p]
            was = self.oper[p]
            o = cen.oper[p]
            ps = prev.slots[p] if prev is not None else {'in': None, 'out': None}
            s = cen.slots[p]
            # -- integrals ---------------------------------------------------------------
            if was:
                self.up[p] += dt
                if ps['in'] is not None:
                    self.util[p] += dt
            if dev.uptime != self.up[p]:
                ctx.report('uptime', f'{p}: uptime {dev.uptime!r}, time spent operational {self.up[p]!r} (at {now!r})')
                return
            if dev.utilization_time != self.util[p]:
                ctx.report('utilization', f'{p}: utilization_time {dev.utilization_time!r}, time spent processing '
                           f'while operational {self.util[p]!r} (at {now!r})')
                return
            ctx.count('accounting_checks')
            # -- no part enters or leaves a machine that is down ----------------------------
            if not was and not o:
                if s['in'] is not None and s['in'] is not ps['in']:
                    ctx.report('accept_while_down', f'{p} accepted {s["in"].name} at {now!r} while down')
                    return
                if ps['out'] is not None and s['out'] is not ps['out']:
                    ctx.report('release_while_down', f'{p} released {ps["out"].name} at {now!r} while down')
                    return
            # -- failure ----------------------------------------------------------------------
            rounds = shut.get(p, [])
            recs = env.simulation_data.get('device_failure', {}).get(p, [])
            new_recs = recs[self.n_fail_rec[p]:]
            self.n_fail_rec[p] = len(recs)
            if failing == p:
                lost = ps['in']
                if lost is not None:
                    self.fail_with_part += 1
                    ctx.count('failures_with_part_in_process')
                if ps['out'] is not None:
                    self.fail_with_output += 1
                    ctx.count('failures_with_finished_part_held')
                if not was:
                    self.fail_while_down += 1
                    ctx.count('failures_while_already_down')
                want = [(0, True, lost), (1, True, lost), (2, True, lost)]
                if len(rounds) != 3 or any(a[0] != b[0] or a[1] != b[1] or a[2] is not b[2]
                                           for a, b in zip(rounds, want)):
                    ctx.report('failure_report', f'{p} failed at {now!r} with '
                               f'{getattr(lost, "name", None)} in process: shutdown callbacks saw '
                               f'{[(i, f, getattr(x, "name", None)) for i, f, x in rounds]}')
                    return
                if len(new_recs) != 1 or new_recs[0] != (now, lost.id if lost is not None else None):
                    ctx.report('failure_log', f'{p} failed at {now!r} with {getattr(lost, "name", None)} '
                               f'(id {getattr(lost, "id", None)}) in process: device_failure records {new_recs}')
                    return
                if s['in'] is not None:
                    ctx.report('failure_keeps_part', f'{p} failed at {now!r} but still holds {s["in"].name} in process')
                    return
                if s['out'] is not ps['out']:
                    ctx.report('failure_loses_finished_part', f'{p} failed at {now!r}: finished part '
                               f'{getattr(ps["out"], "name", None)} -> {getattr(s["out"], "name", None)}')
                    return
                if o:
                    ctx.report('failure_not_down', f'{p} is operational right after failing at {now!r}')
                    return
                self.transitions += 1
                ctx.count('transitions')
            else:
                if new_recs:
                    ctx.report('failure_log', f'{p}: device_failure records {new_recs} without a failure event')
                    return
                if was and not o:
                    want = [(0, False, None), (1, False, None), (2, False, None)]
                    if len(rounds) != 3 or any(a[0] != b[0] or a[1] != b[1] or a[2] is not None
                                               for a, b in zip(rounds, want)):
                        ctx.report('shutdown_callbacks', f'{p} shut down at {now!r}: callbacks saw '
                                   f'{[(i, f, getattr(x, "name", None)) for i, f, x in rounds]}')
                        return
                    self.transitions += 1
                    ctx.count('transitions')
                elif p in refused:
                    # a zero-length stop: one complete round of shutdown callbacks, then one of restored callbacks,
                    # the machine operational before and after and holding what it held
                    want = [(0, False, None), (1, False, None), (2, False, None)]
                    if len(rounds) != 3 or any(a[0] != b[0] or a[1] != b[1] or a[2] is not None
                                               for a, b in zip(rounds, want)) or rest.get(p, []) != [0, 1, 2]:
                        ctx.report('shutdown_callbacks', f'{p}: planned stop at {now!r} refused by a callback: shutdown '
                                   f'callbacks {[(i, f) for i, f, x in rounds]}, restored callbacks {rest.get(p, [])}')
                        return
                    if not o:
                        ctx.report('restore_ignored', f'{p}: restore_functionality() from a shutdown callback at {now!r} '
                                   f'left the machine down')
                        return
                    ctx.count('zero_length_stops_checked')
                elif rounds:
                    ctx.report('shutdown_callbacks', f'{p}: shutdown callbacks ran at {now!r} without a state change '
                               f'or failure ({[(i, f) for i, f, x in rounds]})')
                    return
                elif script_op is not None and script_op['op'] == 'shutdown' and script_op['target'] == p:
                    self.redundant_calls += 1
                    ctx.count('redundant_shutdown_calls')
                    if s['in'] is not ps['in'] or s['out'] is not ps['out']:
                        ctx.report('redundant_shutdown', f'{p}: redundant shutdown() changed the held parts')
                        return
            # -- restore ------------------------------------------------------------------------
            rr = rest.get(p, [])
            if not was and o:
                if rr != [0, 1, 2]:
                    ctx.report('restored_callbacks', f'{p} restored at {now!r}: callbacks ran as {rr}')
                    return
                self.transitions += 1
                ctx.count('transitions')
            elif rr and p in refused:
                pass
            elif rr:
                ctx.report('restored_callbacks', f'{p}: restored callbacks {rr} at {now!r} without a state change')
                return
            elif script_op is not None and script_op['op'] == 'restore' and script_op['target'] == p and was:
                self.redundant_calls += 1
                ctx.count('redundant_restore_calls')
                if s['in'] is not ps['in'] or s['out'] is not ps['out']:
                    ctx.report('redundant_restore', f'{p}: redundant restore_functionality() changed the held parts')
                    return
            if script_op is not None and script_op.get('target') == p:
                if script_op['op'] == 'shutdown' and was and o and p not in refused:
                    ctx.report('shutdown_ignored', f'{p}: shutdown() at {now!r} left the machine operational')
                    return
                if script_op['op'] == 'restore' and not was and not o:
                    ctx.report('restore_ignored', f'{p}: restore_functionality() at {now!r} left the machine down')
                    return
            if was and not o and failing != p:
                # a planned stop in the same instant pauses the pending FAIL event together with the machine's other
                # events: it is then legitimately postponed by the length of the stop
                self.fail_due.pop(p, None)
            self.oper[p] = o
            # -- default work order keeps the target down for exactly its duration -----------------
            od = self.orders.get(p)
            if od is not None and not od['disturbed'] and o and not any(h[0] == p and h[1] == 'end' for h in hooks):
                ctx.report('work_order_down', f'{p} is operational at {now!r} during its work order started '
                           f'{od["t"]!r}')
                return
        for did, what, tag in hooks:
            if did not in self.oper:
                continue
            if what == 'start':
                self.orders[did] = {'t': now, 'tag': tag, 'disturbed': did in refused,
                                    'dur': (m.items[did].get('wo') or {}).get(tag, [0, 0, 0])[0]}
                if cen.oper[did] and did not in refused:
                    ctx.report('work_order_down', f'{did} is operational right after start_work({tag}) at {now!r}')
                    return
            else:
                od = self.orders.pop(did, None)
                if od is not None and not od['disturbed']:
                    self.orders_judged += 1
                    ctx.count('work_orders_judged')
                    if now - od['t'] != od['dur']:
                        ctx.report('work_order_duration', f'{did}: order {tag} started {od["t"]!r}, ended {now!r}, '
                                   f'duration {od["dur"]!r}')
                        return
                    if not cen.oper[did]:
                        ctx.report('work_order_restore', f'{did} is still down after end_work({tag}) at {now!r}')
                        return

    def on_quiescent(self, env, t_next):
        # a failure requested for the current instant (also while the machine is down for maintenance: events
        # scheduled after the pause are not withheld) happens before the clock moves on
        for p, t in self.fail_due.items():
            self.ctx.report('failure_not_at_its_time', f'{p}: a failure was scheduled for {t!r} at {t!r} (machine '
                            f'{"operational" if self.oper[p] else "down"}); the clock is about to leave {env.now!r} '
                            f'and no failure has happened')
            return
        self.ctx.count('quiescent_points_without_an_overdue_failure')

    def features(self):
        return {'transitions': self.transitions, 'fail_with_part': self.fail_with_part,
                'fail_with_output': self.fail_with_output, 'fail_while_down': self.fail_while_down,
                'redundant_calls': self.redundant_calls, 'orders_judged': self.orders_judged}
