"""C16 - value accounting adds up."""
from . import register
from ..census import leaves_of
from ..build import order_cost


@register('values')
class Values:
    previous = None
    def __init__(self, ctx):
        self.ctx = ctx
        self.m = ctx.model
        items = ctx.spec['items']
        self.initial = {i['id']: i.get('value', 0) for i in items if i['kind'] not in ('group',)}
        self.hist_len = {}
        self.sources = [i['id'] for i in items if i['kind'] == 'source']
        self.sinks = [i['id'] for i in items if i['kind'] == 'sink']
        self.maints = [i['id'] for i in items if i['kind'] == 'maintainer']
        self.supplied = {s: 0 for s in self.sources}
        self.src_prev = {s: (None, 0) for s in self.sources}
        self.received = {k: 0 for k in self.sinks}
        self.order_cost = {mm: 0 for mm in self.maints}
        self.n_recv = self.n_hooks = 0
        self.n_hook_views = self.n_gen_views = 0
        self.done = {}
        self.part_values = set()
        self.value_changes = 0
        self.checked_poke = False
        self.batches_poked = set()
        # a System that was built (and run) earlier in this process still reports ITS OWN net value
        prev = Values.previous
        if prev is not None:
            psys, pwant = prev
            got = psys.get_net_value_of_assets()
            if got != pwant:
                ctx.report('net_value', f'after a newer System was created, the earlier System reports a net value of '
                           f'{got!r}; the sum over its own registered assets is {pwant!r}')
            ctx.count('earlier_system_net_value_checks')

    def check_history(self, name, obj, initial, now):
        h = obj.value_history
        total = initial
        n0 = self.hist_len.get(id(obj), 0)
        for k, e in enumerate(h):
            label, t, delta, new = e
            if delta == 0:
                self.ctx.report('zero_entry', f'{name}: value history records a zero change {e}')
                return False
            total = total + delta
            if new != total:
                self.ctx.report('running_total', f'{name}: history entry {k} {e}: running total should be {total!r}')
                return False
            if k >= n0 and t != now:
                self.ctx.report('entry_time', f'{name}: history entry {e} added at {now!r} carries time {t!r}')
                return False
        self.hist_len[id(obj)] = len(h)
        if obj.value != total:
            self.ctx.report('value_ne_history', f'{name}: value {obj.value!r} != initial {initial!r} + history '
                            f'({total!r})')
            return False
        return True

    def on_event(self, env, head):
        ctx, m = self.ctx, self.m
        log = m.log
        now = env.now
        cen = ctx.census
        if not self.checked_poke:
            self.checked_poke = True
            for did, outcome in getattr(ctx, 'poked', []):
                ctx.count('prestart_pokes')
                if outcome == 'accepted':
                    ctx.count('prestart_pokes_accepted')
        # assets
        for did, dev in m.devs.items():
            if not self.check_history(did, dev, self.initial.get(did, 0), now):
                return
            ctx.count('value_identity_checks')
        # live parts and batches
        for did, s in cen.slots.items():
            for slot, val in s.items():
                if val is None:
                    continue
                for top in (val if slot == 'buf' else [val]):
                    lv = leaves_of(top)
                    if getattr(top, 'parts', None) is not None:
                        if top.value != sum(x.value for x in lv):
                            ctx.report('batch_value', f'batch {top.name}: value {top.value!r} != sum of parts')
                            return
                        ctx.count('batch_value_checks')
                        if id(top) not in self.batches_poked:
                            # a batch has no value of its own: add_value must refuse
                            self.batches_poked.add(id(top))
                            try:
                                top.add_value('poke', 1.0)
                                ctx.report('batch_value', f'batch {top.name} accepted add_value(); it is now worth '
                                           f'{top.value!r}, its parts {sum(x.value for x in lv)!r}')
                                return
                            except NotImplementedError:
                                ctx.count('batch_add_value_refused')
                    for leaf in lv:
                        init = getattr(leaf, 'h_initial_value', None)
                        if init is None:
                            init = leaf._initial_value
                        if not self.check_history(leaf.name, leaf, init, now):
                            return
                        self.part_values.add(leaf.value)
                        ctx.count('value_identity_checks')
        # sources: value at supply = value while it sat in the output slot at the previous boundary
        for s_id in self.sources:
            dev = m.devs[s_id]
            out = cen.slots[s_id]['out']
            po, pv = self.src_prev[s_id]
            if po is not None and out is not po:
                self.supplied[s_id] += pv
                ctx.count('supplies_valued')
            self.src_prev[s_id] = (out, out.value if out is not None else 0)
            if dev.value != -self.supplied[s_id] or dev.cost_of_produced_parts != self.supplied[s_id]:
                ctx.report('source_value', f'source {s_id}: value {dev.value!r}, cost_of_produced_parts '
                           f'{dev.cost_of_produced_parts!r}, summed value of supplied parts {self.supplied[s_id]!r}')
                return
        while self.n_recv < len(log.receives):
            t, did, part, ct, ser, lvs, val = log.receives[self.n_recv]
            self.n_recv += 1
            if did in self.received:
                self.received[did] += val
                ctx.count('receipts_valued')
        for k in self.sinks:
            dev = m.devs[k]
            if dev.value != self.received[k] or dev.value_of_received_parts != self.received[k]:
                ctx.report('sink_value', f'sink {k}: value {dev.value!r}, value_of_received_parts '
                           f'{dev.value_of_received_parts!r}, summed value at receipt {self.received[k]!r}')
                return
        gv = getattr(log, 'gen_views', None)
        while isinstance(gv, list) and self.n_gen_views < len(gv):
            sid, k, produced, val, cost, nrec = gv[self.n_gen_views][:6]
            self.n_gen_views += 1
            # while the generator hook makes part k, the k-1 parts before it have been supplied and booked
            if produced != k - 1 or val != -cost:
                ctx.report('source_value', f'source {sid}: while its generator made part {k} the source showed '
                           f'produced_parts {produced!r}, value {val!r}, cost_of_produced_parts {cost!r} '
                           f'({k - 1} parts had been handed over)')
                return
            ctx.count('source_books_read_inside_the_generator_hook')
        while self.n_hooks < len(log.hooks):
            t, did, what, tag, ser = log.hooks[self.n_hooks]
            self.n_hooks += 1
            if what == 'start' and self.maints:
                c = order_cost(m.items[did], tag, self.done.get((did, tag), 0))
                self.order_cost[self.maints[0]] += c
                ctx.count('orders_costed')
                # ... and the target's start_work hook could already read the charge in the maintainer's value
                hv = getattr(log, 'hook_views', None)
                if isinstance(hv, list) and self.n_hook_views < len(hv):
                    vser, vdid, vtag, vals = hv[self.n_hook_views]
                    self.n_hook_views += 1
                    mm = self.maints[0]
                    if (vdid, vtag) == (did, tag) and mm in vals:
                        want = self.initial.get(mm, 0) - self.order_cost[mm]
                        if vals[mm] != want:
                            ctx.report('maintainer_value', f'inside start_work({tag!r}) of {did} at {t} maintainer {mm} '
                                       f'showed value {vals[mm]!r}; with the order that was starting charged it is '
                                       f'{want!r}')
                            return
                        ctx.count('maintainer_values_read_inside_start_work')
                if self.done.get((did, tag), 0) and m.items[did].get('wo_cost_step'):
                    ctx.count('orders_costed_differently_from_the_first')
            elif what == 'end':
                self.done[(did, tag)] = self.done.get((did, tag), 0) + 1
        for mm in self.maints:
            dev = m.devs[mm]
            if dev.value != self.initial.get(mm, 0) - self.order_cost[mm]:
                ctx.report('maintainer_value', f'maintainer {mm}: value {dev.value!r}, initial '
                           f'{self.initial.get(mm, 0)!r}, cost of started orders {self.order_cost[mm]!r}')
                return
        net = m.system.get_net_value_of_assets()
        want = sum(d.value for d in m.devs.values()) + sum(a.value for a in m.world.extra)
        if net != want:
            ctx.report('net_value', f'get_net_value_of_assets() = {net!r}, sum over the created assets {want!r} '
                       f'({len(m.world.extra)} of them created during the run)')
            return
        reg = sum(a.value for a in m.system.find_assets() if hasattr(a, 'value'))
        if net != reg:
            ctx.report('net_value', f'get_net_value_of_assets() = {net!r}, sum over find_assets() {reg!r}')
            return
        if m.world.extra:
            ctx.count('net_value_checks_with_late_assets')
        for a in m.world.extra:
            if not self.check_history(a.name, a, a._initial_value, now):
                return
        ctx.count('net_value_checks')

    def on_end(self):
        m = self.m
        Values.previous = (m.system, sum(a.value for a in m.system.find_assets() if hasattr(a, 'value')))

    def features(self):
        return {'distinct_part_values': len(self.part_values)}
