"""C05 - buffer contract: capacity, level, FIFO order, minimum delay."""
import math

from . import register
from ..census import leaves_of


@register('buffers')
class Buffers:
    def __init__(self, ctx):
        self.ctx = ctx
        self.m = ctx.model
        self.bufs = [i['id'] for i in ctx.spec['items'] if i['kind'] == 'buffer']
        self.prev = {b: [] for b in self.bufs}       # top-level parts stored, in order
        self.arrival = {}                            # id(part) -> arrival time
        self.full_seen = 0
        self.waited = 0
        self.departures = 0
        self.batches = 0
        self.n_recv = 0
        self.decimal = bool(ctx.spec.get('decimal'))

    def on_event(self, env, head):
        ctx, m = self.ctx, self.m
        now = env.now
        log = m.log
        moved = set()          # parts some device received during this event
        views = getattr(log, 'receive_views', None)
        while self.n_recv < len(log.receives):
            moved.add(id(log.receives[self.n_recv][2]))
            v = views[self.n_recv] if isinstance(views, list) and self.n_recv < len(views) else None
            rec = log.receives[self.n_recv]
            self.n_recv += 1
            if v and 'level' in v and rec[1] in self.bufs and v.get('part_in_stored'):
                # (a part re-entering the buffer it is just leaving - a rework loop - is counted twice for a moment)
                ctx.count('levels_read_inside_a_receive_callback_not_judged')
            elif v and 'level' in v and rec[1] in self.bufs and not v.get('hand_made'):
                # what the buffer's receive callback could read: the part it is being told about is counted
                want = v['stored'] + v['part_count']
                if v['level'] != want:
                    ctx.report('level', f'buffer {rec[1]}: inside its receive callback for {rec[2].name} at {rec[0]} '
                               f'level() was {v["level"]} while it held {want} parts ({v["stored"]} stored + '
                               f'{v["part_count"]} being received)')
                    return
                ctx.count('levels_read_inside_a_receive_callback')
        for b in self.bufs:
            dev = m.devs[b]
            stored = dev.stored_parts
            nleaves = sum(len(leaves_of(p)) for p in stored)
            lvl = dev.level()
            cap = dev.capacity
            ctx.count('buffer_checks')
            if lvl != nleaves:
                ctx.report('level', f'buffer {b}: level() = {lvl} but it stores {nleaves} parts')
                return
            if nleaves > cap:
                ctx.report('capacity', f'buffer {b}: stores {nleaves} parts, capacity {cap}')
                return
            if cap != float('inf') and nleaves == cap:
                self.full_seen += 1
            prev = self.prev[b]
            if len(prev) == len(stored) and all(x is y for x, y in zip(prev, stored)):
                continue
            # departures must be a prefix of the previous content, arrivals a suffix of the new.  A part that
            # left may re-enter the same buffer within the event (re-entrant group), so identity alone does not
            # tell: take the fewest departures k with  new == prev[k:] + arrivals
            k = None
            for cand in range(len(prev) + 1):
                rest = prev[cand:]
                if len(stored) >= len(rest) and all(x is y for x, y in zip(rest, stored)) \
                        and all(id(x) in moved for x in prev[:cand]):
                    # (a part counts as departed only if some device received it in this event)
                    k = cand
                    break
            if k is None:
                ctx.report('fifo', f'buffer {b}: content changed from {[p.name for p in prev]} to '
                           f'{[p.name for p in stored]}: a part other than the oldest left, or the order changed')
                return
            left = prev[:k]
            rest = prev[k:]
            new = stored[len(rest):]
            if any(any(p is q for q in rest) for p in new):
                ctx.report('fifo', f'buffer {b}: part stored twice: {[p.name for p in stored]}')
                return
            delay = dev.minimum_delay
            for p in left:
                t0 = self.arrival.pop((b, id(p)), None)
                self.departures += 1
                ctx.count('buffer_departures')
                if t0 is None:
                    continue
                early = delay - (now - t0)
                if self.decimal:
                    # the statement grants one unit of rounding of the clock; the arithmetic chain in
                    # Buffer can accumulate two: 4 ulp of the clock is never a reason to alarm
                    early -= 4 * math.ulp(max(now, 1e-300))
                if early > 0:
                    ctx.report('min_delay', f'buffer {b}: part {p.name} arrived {t0!r}, left {now!r}, minimum '
                               f'delay {delay!r}')
                    return
                if now - t0 > delay + (4 * math.ulp(max(now, 1e-300)) if self.decimal else 0):
                    self.waited += 1
                    ctx.count('buffer_departures_after_waiting_for_downstream')
            for p in new:
                self.arrival[(b, id(p))] = now
                if getattr(p, 'parts', None) is not None:
                    self.batches += 1
            self.prev[b] = list(stored)

    def features(self):
        return {'buffer_full': self.full_seen, 'buffer_waited': self.waited, 'buffer_departures': self.departures,
                'buffer_batches': self.batches}
