"""C05 - buffer contract: capacity, level, FIFO order, minimum delay."""
import math

from . import register
from ..census import leaves_of


@register('buffers')
class Buffers:
    def __init__(self, ctx):
        self.ctx = ctx
        self.m = ctx.model
        self.bufs = [i['id'] for i in ctx.spec['items'] if i['kind'] == 'buffer']
        self.prev = {b: [] for b in self.bufs}       # top-level parts stored, in order
        self.arrival = {}                            # id(part) -> arrival time
        self.full_seen = 0
        self.waited = 0
        self.departures = 0
        self.batches = 0
        self.decimal = bool(ctx.spec.get('decimal'))

    def on_event(self, env, head):
        ctx, m = self.ctx, self.m
        now = env.now
        for b in self.bufs:
            dev = m.devs[b]
            stored = dev.stored_parts
            nleaves = sum(len(leaves_of(p)) for p in stored)
            lvl = dev.level()
            cap = dev.capacity
            ctx.count('buffer_checks')
            if lvl != nleaves:
                ctx.report('level', f'buffer {b}: level() = {lvl} but it stores {nleaves} parts')
                return
            if nleaves > cap:
                ctx.report('capacity', f'buffer {b}: stores {nleaves} parts, capacity {cap}')
                return
            if cap != float('inf') and nleaves == cap:
                self.full_seen += 1
            prev = self.prev[b]
            if len(prev) == len(stored) and all(x is y for x, y in zip(prev, stored)):
                continue
            # departures must be a prefix of the previous content, arrivals a suffix of the new
            ids_now = {id(p) for p in stored}
            k = 0
            while k < len(prev) and id(prev[k]) not in ids_now:
                k += 1
            left = prev[:k]
            rest = prev[k:]
            if len(stored) < len(rest) or any(x is not y for x, y in zip(rest, stored)):
                ctx.report('fifo', f'buffer {b}: content changed from {[p.name for p in prev]} to '
                           f'{[p.name for p in stored]}: a part other than the oldest left, or the order changed')
                return
            new = stored[len(rest):]
            if any(id(p) in {id(q) for q in prev} for p in new):
                ctx.report('fifo', f'buffer {b}: part re-ordered: {[p.name for p in prev]} -> '
                           f'{[p.name for p in stored]}')
                return
            delay = dev.minimum_delay
            for p in left:
                t0 = self.arrival.pop((b, id(p)), None)
                self.departures += 1
                ctx.count('buffer_departures')
                if t0 is None:
                    continue
                early = delay - (now - t0)
                if self.decimal:
                    # the statement grants one unit of rounding of the clock; the arithmetic chain in
                    # Buffer can accumulate two: 4 ulp of the clock is never a reason to alarm
                    early -= 4 * math.ulp(max(now, 1e-300))
                if early > 0:
                    ctx.report('min_delay', f'buffer {b}: part {p.name} arrived {t0!r}, left {now!r}, minimum '
                               f'delay {delay!r}')
                    return
                if now - t0 > delay + (4 * math.ulp(max(now, 1e-300)) if self.decimal else 0):
                    self.waited += 1
                    ctx.count('buffer_departures_after_waiting_for_downstream')
            for p in new:
                self.arrival[(b, id(p))] = now
                if getattr(p, 'parts', None) is not None:
                    self.batches += 1
            self.prev[b] = list(stored)

    def features(self):
        return {'buffer_full': self.full_seen, 'buffer_waited': self.waited, 'buffer_departures': self.departures,
                'buffer_batches': self.batches}
