"""Core of the runtime-monitoring harness: repo loader, seeds, sharding,
verdicts, evidence and replay files.

A check is `python -m simmon.run <Cxx> <tier>`.  The parent process starts
one *shard* subprocess per core (`python -m simmon.run --shard ...`), each
shard imports the library from the working tree, runs its share of the
cases with the property's monitors attached and prints one JSON document.
The parent merges the shard results, writes evidence/<id>.json and prints the
verdict line.
"""
import hashlib
import json
import os
import random
import subprocess
import sys
import time
import traceback

VERIF_DIR = os.path.dirname(os.path.dirname(os.path.abspath(__file__)))
EVIDENCE_DIR = os.environ.get('SIMMON_EVIDENCE_DIR') or os.path.join(VERIF_DIR, 'evidence')
REPLAY_DIR = os.path.join(EVIDENCE_DIR, 'replays')
KNOWN_FINDINGS = os.path.join(VERIF_DIR, 'known_findings.txt')
PY = '/venv/bin/python'
NCPU = 16


def repo_dir():
    return os.environ.get('SIMPROCESD_REPO', '/repo')


_loaded = {}


def load_library():
    """Import simprocesd from the tree under test and make sure that this is
    really where it came from."""
    if 'mod' in _loaded:
        return _loaded['mod']
    rd = os.path.realpath(repo_dir())
    sys.path.insert(0, rd)
    sys.dont_write_bytecode = True
    os.environ.setdefault('MPLBACKEND', 'Agg')
    import simprocesd
    where = os.path.realpath(simprocesd.__file__)
    assert where.startswith(rd + os.sep), \
        f'simprocesd imported from {where}, expected under {rd}'
    _loaded['mod'] = simprocesd
    _loaded['where'] = where
    return simprocesd


def stable_int(*parts):
    h = hashlib.sha256(repr(parts).encode()).digest()
    return int.from_bytes(h[:8], 'big')


def canon(obj):
    return json.dumps(obj, sort_keys=True, default=repr, separators=(',', ':'))


def case_hash(obj):
    return hashlib.sha256(canon(obj).encode()).hexdigest()[:16]


class Inconclusive(Exception):
    pass


class Shard:
    """What a property runner gets: identity of the shard, a PRNG, and the
    sinks for counters, samples, violations."""

    def __init__(self, prop, tier, seed, idx, n, replay=None):
        self.prop = prop
        self.tier = tier
        self.seed = seed
        self.idx = idx
        self.n = n
        self.replay = replay
        self.rng = random.Random(stable_int(seed, prop, idx, n))
        self.counters = {}
        self.nontrivial = set()
        self.seen = set()
        self.samples = []
        self.violations = []
        self.known = {}
        self.notes = []
        self.t0 = time.time()

    # -- bookkeeping ------------------------------------------------------
    def count(self, key, n=1):
        self.counters[key] = self.counters.get(key, 0) + n

    def maxc(self, key, v):
        k = 'max:' + key
        if v > self.counters.get(k, 0):
            self.counters[k] = v

    def case_done(self, case, nontrivial, sample=None):
        """Register one executed case.  `case` must be JSON-able."""
        h = case_hash(case)
        self.count('cases')
        if h not in self.seen:
            self.seen.add(h)
        if nontrivial:
            self.nontrivial.add(h)
        if len(self.samples) < 2 and (nontrivial or not self.samples):
            self.samples.append(sample if sample is not None else case)
        return h

    def violation(self, monitor, msg, case, witness=None, engine=None):
        v = {'property': self.prop, 'monitor': monitor, 'msg': msg,
             'engine': engine, 'case': case, 'witness': witness,
             'seed': self.seed}
        # keep the report bounded but complete enough to replay
        if len(self.violations) < 25:
            self.violations.append(v)
        self.count('violations_total')

    def known_finding(self, key, what):
        d = self.known.setdefault(key, {'what': what, 'n': 0})
        d['n'] += 1

    def share(self, total):
        """Indices of the cases of this shard out of `total`."""
        return range(self.idx, total, self.n)

    def result(self):
        reach = {}
        try:
            from . import instrument
            reach = instrument.reach_summary()
        except Exception:
            pass
        return {'reach': reach, 'counters': self.counters,
                'nontrivial': sorted(self.nontrivial),
                'distinct': len(self.seen),
                'samples': self.samples,
                'violations': self.violations,
                'known': self.known,
                'notes': self.notes,
                'lib': _loaded.get('where'),
                'wall_s': time.time() - self.t0}


# ---------------------------------------------------------------------------
# known findings

def read_known_findings():
    """known_findings.txt lines:
         fixed: property=<id> <commit> <what failed>
         open: property=<id> key=<mechanism-key> <what fails>
       Only `open:` entries suppress anything."""
    out = {}
    if not os.path.exists(KNOWN_FINDINGS):
        return out
    for line in open(KNOWN_FINDINGS):
        line = line.strip()
        if not line.startswith('open:'):
            continue
        fields = line[5:].split()
        prop = key = None
        rest = []
        for f in fields:
            if f.startswith('property=') and prop is None:
                prop = f[9:]
            elif f.startswith('key=') and key is None:
                key = f[4:]
            else:
                rest.append(f)
        if prop and key:
            out[(prop, key)] = ' '.join(rest)
    return out


# ---------------------------------------------------------------------------
# parent side

def anchor_reach(prop, reach):
    """Which functions of the property's anchor files did the workload enter (measured by the
    sys.monitoring PY_START counters), and which never."""
    try:
        files = set()
        for line in open(os.path.join(VERIF_DIR, 'properties.jsonl')):
            p = json.loads(line)
            if p['id'] == prop:
                files = {os.path.basename(f) for f in p['anchors']['files']}
        mine = {k: v for k, v in reach.items() if k.split(':')[0] in files}
        hit = {k: v for k, v in mine.items() if v > 0}
        never = sorted(k for k, v in mine.items() if v == 0)
        return {'files': sorted(files), 'functions_entered': len(hit), 'functions_in_anchor_files': len(mine),
                'entries': sum(hit.values()), 'never_entered': never}
    except Exception as e:      # evidence decoration must never break a verdict
        return {'error': repr(e)}


def _run_shard_proc(prop, tier, seed, idx, n, timeout):
    cmd = [PY, '-m', 'simmon.run', '--shard', prop, tier, str(seed), str(idx), str(n)]
    env = dict(os.environ)
    env['PYTHONDONTWRITEBYTECODE'] = '1'
    env['PYTHONHASHSEED'] = '0'
    env['MPLBACKEND'] = 'Agg'
    env['PYTHONPATH'] = VERIF_DIR
    return subprocess.Popen(cmd, cwd=VERIF_DIR, env=env, stdout=subprocess.PIPE,
                            stderr=subprocess.PIPE, text=True)


def run_parent(prop, tier, seed, spec):
    """spec: dict from the property module: floors, rule, level, shards,
    timeout_s, assumptions."""
    t0 = time.time()
    n = spec.get('shards', {}).get(tier, NCPU)
    timeout = spec.get('timeout_s', {}).get(tier, 900 if tier == 'quick' else 7200)
    procs = [_run_shard_proc(prop, tier, seed, i, n, timeout) for i in range(n)]
    results = []
    problems = []
    deadline = t0 + timeout
    for i, p in enumerate(procs):
        try:
            out, err = p.communicate(timeout=max(1, deadline - time.time()))
        except subprocess.TimeoutExpired:
            p.kill()
            out, err = p.communicate()
            problems.append(f'shard {i} hit the wall-clock watchdog ({timeout}s)')
            continue
        if p.returncode != 0:
            problems.append(f'shard {i} died rc={p.returncode}: {err[-2000:]}')
            continue
        try:
            line = [l for l in out.splitlines() if l.startswith('SHARD-RESULT ')][-1]
            results.append(json.loads(line[len('SHARD-RESULT '):]))
        except Exception as e:  # noqa
            problems.append(f'shard {i} produced no result: {e}: {out[-500:]} {err[-1500:]}')

    counters = {}
    reach = {}
    nontrivial = set()
    samples = []
    violations = []
    known = {}
    notes = []
    libs = set()
    distinct = 0
    for r in results:
        for k, v in r['counters'].items():
            if k.startswith('max:'):
                counters[k] = max(counters.get(k, 0), v)
            else:
                counters[k] = counters.get(k, 0) + v
        for k, v in r.get('reach', {}).items():
            reach[k] = reach.get(k, 0) + v
        nontrivial.update(r['nontrivial'])
        distinct += r['distinct']
        for s in r['samples']:
            if len(samples) < 3:
                samples.append(s)
        violations.extend(r['violations'])
        for k, d in r['known'].items():
            e = known.setdefault(k, {'what': d['what'], 'n': 0})
            e['n'] += d['n']
        notes.extend(r['notes'])
        if r.get('lib'):
            libs.add(r['lib'])

    # floors -> inconclusive
    floor_fail = []
    for k, fl in spec.get('floors', {}).get(tier, {}).items():
        if counters.get(k, 0) < fl:
            floor_fail.append(f'{k}={counters.get(k, 0)}<{fl}')

    os.makedirs(EVIDENCE_DIR, exist_ok=True)
    replay_paths = []
    if violations:
        os.makedirs(REPLAY_DIR, exist_ok=True)
        seen = set()
        for v in violations:
            h = case_hash([v['monitor'], v['case']])
            if h in seen:
                continue
            seen.add(h)
            path = os.path.join(REPLAY_DIR, f'{prop}_{h}.json')
            with open(path, 'w') as f:
                json.dump(v, f, indent=1, default=repr)
            replay_paths.append((v, os.path.relpath(path, VERIF_DIR)))

    wall = time.time() - t0
    evaluations = counters.get('cases', 0)
    coverage = {
        'evaluations': evaluations,
        'distinct_nontrivial': len(nontrivial),
        'distinct_cases': distinct,
        'rule': spec['rule'],
        'samples': samples if samples else ['(no case completed)'],
        'counters': {k: v for k, v in sorted(counters.items())},
        'floors': spec.get('floors', {}).get(tier, {}),
        'shards': n,
        'shards_completed': len(results),
        'library_under_test': sorted(libs),
        'known_findings_reobserved': known,
        'anchor_functions': anchor_reach(prop, reach),
        'problems': problems,
        'notes': notes[:20],
    }
    if spec.get('exhaustive_key') and counters.get(spec['exhaustive_key']):
        coverage['exhaustive'] = True
        coverage['exhaustive_part'] = spec.get('exhaustive_text', '')
    ev = {'property_id': prop, 'tier': tier, 'seed': seed,
          'level': spec.get('level', 'exploration'),
          'coverage': coverage,
          'assumptions': spec.get('assumptions', []),
          'wall_s': round(wall, 2),
          'violations': len(violations)}
    with open(os.path.join(EVIDENCE_DIR, f'{prop}.json'), 'w') as f:
        json.dump(ev, f, indent=1, default=repr)

    for k, d in known.items():
        print(f'KNOWN-FINDING: property={prop} {k}: {d["what"]} (re-observed {d["n"]}x)')
    summary = ' '.join(f'{k}={v}' for k, v in sorted(counters.items())
                       if not k.startswith('feat:'))
    print(f'[{prop} {tier} seed={seed}] cases={evaluations} distinct_nontrivial={len(nontrivial)} '
          f'wall={wall:.1f}s')
    print(f'  observed: {summary}')
    if violations:
        for v, path in replay_paths[:10]:
            print(f'  {v["monitor"]}: {v["msg"][:300]}')
            print(f'VIOLATION property={prop} replay={path}')
        return 1
    if problems:
        print(f'INCONCLUSIVE property={prop} reason=' + '; '.join(problems)[:1500])
        return 2
    if floor_fail:
        print(f'INCONCLUSIVE property={prop} reason=monitor evaluation floors not reached: '
              + ', '.join(floor_fail))
        return 2
    if evaluations < 1 or len(nontrivial) < 2:
        print(f'INCONCLUSIVE property={prop} reason=too few non-trivial cases')
        return 2
    print(f'HELD property={prop} on everything explored')
    return 0


def run_shard(prop, tier, seed, idx, n, runner):
    load_library()
    sh = Shard(prop, tier, seed, idx, n)
    try:
        runner(sh)
    except Exception:
        sh.notes.append('shard crashed: ' + traceback.format_exc()[-3000:])
        sys.stderr.write(traceback.format_exc())
        print('SHARD-RESULT ' + json.dumps(sh.result(), default=repr))
        sys.exit(3)
    print('SHARD-RESULT ' + json.dumps(sh.result(), default=repr))


def run_replay(prop, path, replayer):
    load_library()
    v = json.load(open(path))
    sh = Shard(prop, 'quick', v.get('seed', 0), 0, 1, replay=v)
    replayer(sh, v)
    if sh.violations:
        for x in sh.violations:
            print(f'  {x["monitor"]}: {x["msg"][:600]}')
        print(f'VIOLATION property={prop} replay={path}')
        return 1
    print(f'replay of {path}: no violation reproduced')
    return 0
