"""Run-time instrumentation of the library under test.

Nothing here is committed to /repo: the harness wraps class attributes of the
imported library before any System is built.  Every wrapper forwards to the
original and tells the *current bus* what happened.  While a probe runs on a
deep copy (PROBING) the wrappers are silent, so copies never write into the
logs of the real run.
"""
import itertools
import sys

from . import core

CUR = None          # the active Bus (or None)
PROBING = False     # True while a probe works on a deep copy
_installed = False
ORIG = {}


class Bus:
    """Fan-out of instrumentation events to monitors.  A monitor is any object;
    the methods it defines (before_step, after_event, before_advance,
    event_created, dispatch, dispatched, schedule_call, queue_call, datapoint,
    asset_created, asset_initialized, ...) are called when the event happens."""

    NAMES = ('before_step', 'after_event', 'before_advance', 'event_created', 'dispatch',
             'dispatched', 'schedule_call', 'queue_call', 'datapoint', 'asset_created',
             'asset_initialized', 'run_begin', 'run_end', 'generated', 'rm_call',
             'work_order_call')

    def __init__(self, tie_policy=None):
        self.monitors = []
        self.table = {n: [] for n in self.NAMES}
        self.tie_policy = tie_policy
        self.serial = itertools.count(1)
        self.dispatch_serial = 0
        self.counts = {}
        self.in_event = None
        self.external_depth = 0     # >0 while harness code (playing the user) calls the API from outside events

    def attach(self, mon):
        self.monitors.append(mon)
        for n in self.NAMES:
            f = getattr(mon, n, None)
            if f is not None:
                self.table[n].append(f)
        return mon

    def emit(self, name, *a):
        for f in self.table[name]:
            f(*a)


class external:
    """Marks API calls made by the harness in the role of the user, outside any event."""

    def __init__(self, bus):
        self.bus = bus

    def __enter__(self):
        self.bus.external_depth += 1

    def __exit__(self, *a):
        self.bus.external_depth -= 1


class use_bus:
    def __init__(self, bus):
        self.bus = bus

    def __enter__(self):
        global CUR
        self.prev = CUR
        CUR = self.bus
        return self.bus

    def __exit__(self, *a):
        global CUR
        CUR = self.prev


class probing:
    """Context manager: silence the instrumentation and keep the global random
    state and the global asset-id counter untouched."""

    def __enter__(self):
        global PROBING
        import random
        from simprocesd.model.factory_floor.asset import Asset
        self.prev = PROBING
        PROBING = True
        self.rs = random.getstate()
        self.idc = Asset._id_counter
        return self

    def __exit__(self, *a):
        global PROBING
        import random
        from simprocesd.model.factory_floor.asset import Asset
        random.setstate(self.rs)
        Asset._id_counter = self.idc
        PROBING = self.prev


def install():
    """Wrap the library's bound points once per process."""
    global _installed
    if _installed:
        return
    _installed = True
    core.load_library()
    from simprocesd.model import simulation as sim
    from simprocesd.model.factory_floor import asset as asset_mod
    from simprocesd.model import system as system_mod
    Event, Environment = sim.Event, sim.Environment

    # -- Event.__init__ : serial + tie policy ---------------------------------
    o_init = Event.__init__
    ORIG['Event.__init__'] = o_init

    def ev_init(self, *a, **k):
        o_init(self, *a, **k)
        bus = CUR
        if bus is None or PROBING:
            return
        self.h_serial = next(bus.serial)
        if bus.tie_policy is not None:
            self.random_weight = bus.tie_policy(self, bus)
        for f in bus.table['event_created']:
            f(self)
    Event.__init__ = ev_init

    # -- Event.execute : dispatch log -------------------------------------------
    o_exec = Event.execute
    ORIG['Event.execute'] = o_exec

    def ev_execute(self):
        global CALLS
        CALLS = 0           # the call budget is per dispatched event, with or without a bus
        bus = CUR
        if bus is None or PROBING:
            return o_exec(self)
        bus.dispatch_serial += 1
        prev = bus.in_event
        bus.in_event = self
        for f in bus.table['dispatch']:
            f(self)
        try:
            return o_exec(self)
        finally:
            bus.in_event = prev
            for f in bus.table['dispatched']:
                f(self)
    Event.execute = ev_execute

    # -- Environment.step -----------------------------------------------------------
    o_step = Environment.step
    ORIG['Environment.step'] = o_step

    def env_step(self):
        bus = CUR
        if bus is None or PROBING:
            return o_step(self)
        head = self._events[0] if self._events else None
        if head is not None and head.time > self._now:
            for f in bus.table['before_advance']:
                f(self, head.time)
        for f in bus.table['before_step']:
            f(self, head)
        try:
            o_step(self)
        except BaseException:
            # an exception escaping from the event's action: the event is consumed all the same and the
            # monitors see the boundary (the caller may catch the exception and carry on)
            bus.step_raised = getattr(bus, 'step_raised', 0) + 1
            for f in bus.table['after_event']:
                f(self, head)
            raise
        for f in bus.table['after_event']:
            f(self, head)
    Environment.step = env_step

    # -- Environment.run ---------------------------------------------------------------
    o_run = Environment.run
    ORIG['Environment.run'] = o_run

    def env_run(self, simulation_duration, trace=False):
        bus = CUR
        if bus is None or PROBING:
            return o_run(self, simulation_duration, trace=trace)
        t0 = self._now
        for f in bus.table['run_begin']:
            f(self, t0, simulation_duration)
        o_run(self, simulation_duration, trace=trace)
        for f in bus.table['run_end']:
            f(self, t0, simulation_duration)
    Environment.run = env_run

    # -- queue API ------------------------------------------------------------------------
    o_sched = Environment.schedule_event
    ORIG['Environment.schedule_event'] = o_sched

    def env_schedule(self, time, asset_id, action, event_type=sim.EventType.OTHER_LOW_PRIORITY,
                     message=''):
        bus = CUR
        if bus is None or PROBING:
            return o_sched(self, time, asset_id, action, event_type, message)
        try:
            o_sched(self, time, asset_id, action, event_type, message)
        except BaseException as e:
            for f in bus.table['schedule_call']:
                f(self, time, asset_id, action, event_type, e)
            raise
        for f in bus.table['schedule_call']:
            f(self, time, asset_id, action, event_type, None)
    Environment.schedule_event = env_schedule

    def wrap_q(name):
        o = getattr(Environment, name)
        ORIG['Environment.' + name] = o

        def w(self, asset_id=None):
            bus = CUR
            if bus is None or PROBING:
                return o(self, asset_id)
            for f in bus.table['queue_call']:
                f(self, name, asset_id, 'before')
            r = o(self, asset_id)
            for f in bus.table['queue_call']:
                f(self, name, asset_id, 'after')
            return r
        setattr(Environment, name, w)
    for nm in ('pause_matching_events', 'unpause_matching_events', 'cancel_matching_events'):
        wrap_q(nm)

    # -- add_datapoint -------------------------------------------------------------------------
    o_dp = Environment.add_datapoint
    ORIG['Environment.add_datapoint'] = o_dp

    def env_dp(self, list_label, sub_label, datapoint):
        o_dp(self, list_label, sub_label, datapoint)
        bus = CUR
        if bus is None or PROBING:
            return
        for f in bus.table['datapoint']:
            f(self, list_label, sub_label, datapoint)
    Environment.add_datapoint = env_dp

    # -- Asset creation / initialisation -------------------------------------------------------
    Asset = asset_mod.Asset
    o_ainit = Asset.__init__
    ORIG['Asset.__init__'] = o_ainit

    def a_init(self, name=None, value=0, is_transitory=False):
        bus = CUR
        if bus is not None and not PROBING and not is_transitory:
            for f in bus.table['asset_created']:
                f(self, 'begin')
        o_ainit(self, name, value, is_transitory)
        if bus is not None and not PROBING and not is_transitory:
            global LAST_NAME_GIVEN
            LAST_NAME_GIVEN = name
            for f in bus.table['asset_created']:
                f(self, 'end')
    Asset.__init__ = a_init

    o_ainitialize = Asset.initialize
    ORIG['Asset.initialize'] = o_ainitialize

    def a_initialize(self, env):
        o_ainitialize(self, env)
        bus = CUR
        if bus is None or PROBING:
            return
        for f in bus.table['asset_initialized']:
            f(self, env)
    Asset.initialize = a_initialize
    enable_call_budget()


LAST_NAME_GIVEN = None      # the name argument of the Asset constructor call that just finished


class CallBudgetExceeded(Exception):
    """More library function entries inside ONE dispatched event than any correct handler needs:
    the handler does not terminate (logical budget, independent of machine load)."""


CALLS = 0
CALL_LIMIT = 2000000
REACH = {}          # code object -> number of entries (which library functions the workload drove)
ALL_CODES = []      # every library code object that is instrumented
_budget_on = False


def enable_call_budget():
    """Count entries into the library's functions (sys.monitoring PY_START, local events on the
    library's code objects only) and raise inside the handler when one dispatched event exceeds
    CALL_LIMIT of them.  The counter is reset at every dispatch."""
    global _budget_on
    if _budget_on:
        return
    _budget_on = True
    import types
    mon = sys.monitoring
    tool = 4
    try:
        mon.use_tool_id(tool, 'simmon')
    except ValueError:
        return
    seen = set()

    def add_code(co):
        if id(co) in seen:
            return
        seen.add(id(co))
        ALL_CODES.append(co)
        mon.set_local_events(tool, co, mon.events.PY_START)
        for c in co.co_consts:
            if isinstance(c, types.CodeType):
                add_code(c)

    for name, mod in list(sys.modules.items()):
        if not name.startswith('simprocesd.model') or mod is None:
            continue
        for obj in vars(mod).values():
            if isinstance(obj, types.FunctionType) and obj.__module__ == name:
                add_code(obj.__code__)
            elif isinstance(obj, type) and obj.__module__ == name:
                for v in vars(obj).values():
                    f = getattr(v, '__func__', v)
                    if isinstance(f, types.FunctionType):
                        add_code(f.__code__)
                    elif isinstance(v, property):
                        for g in (v.fget, v.fset):
                            if g is not None:
                                add_code(g.__code__)

    def on_start(code, offset):
        global CALLS
        CALLS += 1
        REACH[code] = REACH.get(code, 0) + 1
        if CALLS > CALL_LIMIT:
            CALLS = 0
            raise CallBudgetExceeded(f'more than {CALL_LIMIT} library calls inside one event (in {code.co_name})')

    mon.register_callback(tool, mon.events.PY_START, on_start)


def action_name(action):
    a = getattr(action, 'func', action)
    return getattr(a, '__name__', type(a).__name__)


def action_owner(action):
    a = getattr(action, 'func', action)
    return getattr(a, '__self__', None)


def reach_summary():
    """{'file.py:function': entries} for every instrumented library function (0 = never driven)."""
    import os
    out = {}
    for co in ALL_CODES:
        if co.co_name.startswith('<') and co.co_name != '<lambda>':
            continue
        key = f'{os.path.basename(co.co_filename)}:{co.co_qualname}'
        out[key] = out.get(key, 0) + REACH.get(co, 0)
    return out


def _scratch_noop():
    return None


def scratch_environment(ids, pools=None):
    """A private Environment of the user's own (a calendar, a what-if) that lives next to the model's: events for the
    same asset ids are scheduled, paused, cancelled, resumed and run in it.  The instrumentation is silent meanwhile;
    the model's own Environment must not notice."""
    from simprocesd.model import Environment
    with probing():
        e = Environment('scratch')
        for k, a in enumerate(ids):
            e.schedule_event(1 + k, a, _scratch_noop, 5)
            e.schedule_event(2.5 + k, a, _scratch_noop, 7)
        e.pause_matching_events(ids[0])
        e.cancel_matching_events(ids[-1])
        e.run(1.5)
        e.unpause_matching_events(ids[0])
        e.pause_matching_events(ids[-1])
        e.run(len(ids) + 4)
        e.step() if e._events else None
        if pools:
            # ... and a pool manager of its own with pools of the same names, filled to the brim
            from simprocesd.model import ResourceManager
            rm = ResourceManager()
            rm.initialize(e)
            kept = []
            for name in pools:
                rm.add_resources(name, 1)
                kept.append(rm.reserve_resources({name: 1}))
            rm.reserve_resources({pools[0]: 1})         # refused: the pool is full
            e.run(1)
            e.h_scratch_manager = (rm, kept)
    return e
