"""Tie-break policies: the 'schedule' dimension of this single-threaded
simulator.  Event.random_weight is overwritten right after construction."""
import hashlib
import random
import struct

POLICIES = ('prng', 'fifo', 'lifo', 'const', 'keyed')


def make_policy(name, seed, id_norm=None):
    if name == 'prng':
        rng = random.Random(seed)
        return lambda ev, bus: rng.random()
    if name == 'fifo':
        return lambda ev, bus: ev.h_serial * 2.0 ** -40
    if name == 'lifo':
        return lambda ev, bus: 1.0 - ev.h_serial * 2.0 ** -40
    if name == 'const':
        return lambda ev, bus: 0.5
    if name == 'keyed':
        occ = {}
        from .instrument import action_name

        def keyed(ev, bus):
            aid = ev.asset_id
            if id_norm is not None:
                aid = id_norm(aid)
            key = (seed, repr(float(ev.time)), aid, float(ev.event_type), action_name(ev.action))
            n = occ.get(key, 0)
            occ[key] = n + 1
            h = hashlib.sha256(repr(key + (n,)).encode()).digest()
            return struct.unpack('>Q', h[:8])[0] / 2.0 ** 64
        return keyed
    raise ValueError(name)
