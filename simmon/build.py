"""Builder: model specification -> real simprocesd objects plus the harness
callbacks that give the monitors an occurrence log independent of
simulation_data."""
from . import core, instrument
from . import modelgen
from .modelgen import Pred



class HarnessError(Exception):
    """Raised on purpose by workload callbacks / deciders (user code failing inside an event)."""


class NullLog:
    """What a deep copy of the log becomes: probes on copies record nothing."""

    def __getattr__(self, name):
        if name.startswith('__'):
            raise AttributeError(name)
        return _SINK

    def __deepcopy__(self, memo):
        return self


class _Sink:
    """Absorbs whatever a callback wants to record: callable, list-like, always empty."""

    def __call__(self, *a, **k):
        return 0

    def __getattr__(self, name):
        if name.startswith('__'):
            raise AttributeError(name)
        return self

    def __iter__(self):
        return iter(())

    def __len__(self):
        return 0

    def __deepcopy__(self, memo):
        return self


_SINK = _Sink()
NULL_LOG = NullLog()


class ModelLog:
    """Occurrence logs written by harness callbacks (registered after the
    workload's own callbacks)."""

    def __init__(self):
        self.env = None
        self.receives = []          # (time, dev_id, part, ct_read, dispatch_serial)
        self.receive_units = []     # aligned with receives: the direct members of the received batch (or [part])
        self.receive_views = []     # aligned with receives: what the callback could read at that moment
        self.hook_views = []        # (serial, device id, tag, {maintainer id: value}) read inside start_work
        self.gen_views = []         # (source id, k, produced_parts, value, cost_of_produced_parts, records) read inside the generator hook
        self.maint_objs = {}        # maintainer id -> object (for hook_views)
        self.finishes = []          # (time, dev_id, part)
        self.shutdowns = []         # (time, dev_id, idx, is_failure, lost_part)
        self.restores = []          # (time, dev_id, idx)
        self.hooks = []             # (time, dev_id, 'start'|'end', tag)
        self.script = []            # (time, op dict, outcome)
        self.gate_calls = []        # (gate id, part, result) predicate evaluations
        self.sched_calls = []       # (now, scheduler id, object name, time arg, state, dispatch serial)
        self.refusals = []          # (now, device id) planned stops refused by a shutdown callback restoring at once
        self.cb_offsets = []        # (now, device id, offset) one-shot offsets requested from finish callbacks
        self.generated = []         # top-level generated parts
        self.leaves = []            # generated leaf parts, generation order
        self.new = {'receives': 0, 'finishes': 0, 'shutdowns': 0, 'restores': 0, 'hooks': 0, 'script': 0}
        self.bus = None

    def __deepcopy__(self, memo):
        return NULL_LOG

    def now(self):
        return self.env.now if self.env is not None else 0

    def serial(self):
        return self.bus.dispatch_serial if self.bus is not None else 0


class ReceiveCb:
    def __init__(self, log, dev_id):
        self.log, self.dev_id = log, dev_id

    def __call__(self, dev, part):
        if instrument.PROBING:
            return
        lg = self.log
        lg.receives.append((lg.now(), self.dev_id, part, dev.cycle_time, lg.serial(), leaves_of(part), part.value))
        lg.receive_units.append(units_of(part))
        # what a receive callback can see through the public API at this moment (judged by the routing and buffer
        # monitors): the part's routing history already ends with this device; a buffer already counts the part
        view = {}
        try:
            h = part.routing_history
            view['hist_last_is_dev'] = bool(h) and h[-1] is dev
            view['hist_names'] = [getattr(x, 'name', '?') for x in h[-3:]]
        except Exception as e:              # (an internal renamed by a refactoring: not judged)
            view['hist_error'] = repr(e)
        if hasattr(dev, 'level') and hasattr(dev, 'stored_parts'):
            try:
                stored = list(dev.stored_parts)
                cnt = lambda x: len(x.parts) if getattr(x, 'parts', None) is not None else 1
                view['level'] = dev.level()
                view['stored'] = sum(cnt(x) for x in stored)
                view['part_in_stored'] = any(x is part for x in stored)
                view['part_count'] = cnt(part)
                view['hand_made'] = any(':ins' in str(getattr(u, 'huid', '')) for u in units_of(part))
            except Exception as e:
                view['level_error'] = repr(e)
        lg.receive_views.append(view)


class FinishCb:
    def __init__(self, log, dev_id):
        self.log, self.dev_id = log, dev_id

    def __call__(self, dev, part):
        if instrument.PROBING:
            return
        self.log.finishes.append((self.log.now(), self.dev_id, part, self.log.serial()))


class ShutdownCb:
    def __init__(self, log, dev_id, idx):
        self.log, self.dev_id, self.idx = log, dev_id, idx

    def __call__(self, dev, is_failure, part):
        if instrument.PROBING:
            return
        self.log.shutdowns.append((self.log.now(), self.dev_id, self.idx, is_failure, part, self.log.serial()))


class RefuseCb:
    """Workload callback: a shutdown callback that refuses every k-th planned stop by restoring the machine
    at once (a zero-length stop)."""

    def __init__(self, log, dev_id, every):
        self.log, self.dev_id, self.every = log, dev_id, every
        self.n = 0

    def __call__(self, dev, is_failure, part):
        if is_failure:
            return
        self.n += 1
        if self.n % self.every == 0:
            if not instrument.PROBING:
                self.log.refusals.append((self.log.now(), self.dev_id, self.log.serial()))
            dev.restore_functionality()


class RaiseCb:
    """Workload callback: user code that fails once, on the k-th finished part (registered last)."""

    def __init__(self, k):
        self.k, self.n, self.fired = k, 0, False

    def __call__(self, dev, part):
        if instrument.PROBING:
            return
        self.n += 1
        if self.n >= self.k and not self.fired:
            # only from the machine's own FINISH_PROCESSING event: a part that finishes inline inside its sender's
            # hand-over (effective cycle time 0) would abort the SENDER's event half-way, and what the library does
            # then is not covered by any of the statements
            bus = instrument.CUR
            ev = bus.in_event if bus is not None else None
            if ev is not None and instrument.action_name(ev.action) == '_finish_cycle' \
                    and instrument.action_owner(ev.action) is dev:
                self.fired = True
                raise HarnessError('finish callback failed')


class RaiseOnStop:
    """Workload callback (shutdown or restored callback, registered last): user code that fails once, on the k-th
    call - but only when the stop / restore was requested by a script operation or is a failure event, never in the
    middle of a Maintainer's own bookkeeping."""

    def __init__(self, k, what):
        self.k, self.what, self.n, self.fired = k, what, 0, False

    def __call__(self, dev, *a):
        if instrument.PROBING or self.fired:
            return
        self.n += 1
        if self.n < self.k:
            return
        bus = instrument.CUR
        ev = bus.in_event if bus is not None else None
        name = instrument.action_name(ev.action) if ev is not None else None
        ok = {'shutdown': ('script_shutdown', '_fail'), 'restored': ('script_restore',)}[self.what]
        if (ev is None and bus is not None and bus.external_depth > 0) or name in ok:
            self.fired = True
            raise HarnessError(self.what + ' callback failed')


class InsertCb:
    """Workload callback (finish callback): every k-th finished Batch gets one more, hand-made part - the
    documentation allows changing Batch.parts directly; the part is made by the user, not by a Source, so nobody
    has initialised it."""

    def __init__(self, log, dev_id, every):
        self.log, self.dev_id, self.every, self.n = log, dev_id, every, 0

    def __call__(self, dev, part):
        if instrument.PROBING or getattr(part, 'parts', None) is None:
            return
        self.n += 1
        if self.n % self.every:
            return
        p = Part(name=f'{self.dev_id}_insert_{self.n}', value=0.5, quality=1)
        p.huid = f'{self.dev_id}:ins{self.n}'
        p.hseq = 0
        p.hsrc = self.dev_id
        p.h_initial_value = 0.5
        part.parts.append(p)
        self.log.leaves.append(p)
        self.log.inserted = getattr(self.log, 'inserted', 0) + 1


class ConwipCb:
    """Workload callback (receive callback of the station behind a buffer): whenever the station takes a job out of the
    buffer - i.e. in the middle of the buffer's release - the next raw job, made by hand, is put into that same buffer
    with Buffer.give_part() (constant work in progress)."""

    def __init__(self, log, world, dev_id, buf_id):
        self.log, self.world, self.dev_id, self.buf_id, self.n = log, world, dev_id, buf_id, 0

    def __call__(self, dev, part):
        if instrument.PROBING:
            return
        self.n += 1
        buf = self.world.devs[self.buf_id]
        p = Part(name=f'{self.dev_id}_job_{self.n}', value=1, quality=1)
        p.huid = f'{self.dev_id}:job{self.n}'
        p.hseq = 0
        p.hsrc = self.dev_id
        p.h_initial_value = 1
        p.initialize(dev.env)
        if buf.give_part(p):
            self.log.leaves.append(p)
            self.log.conwip_jobs = getattr(self.log, 'conwip_jobs', 0) + 1


class LotSeenCb:
    """Workload callback (receive callback of a batcher): remembers the lot that came in last."""

    def __init__(self, world, dev_id):
        self.world, self.dev_id = world, dev_id

    def __call__(self, dev, part):
        if instrument.PROBING:
            return
        self.world.current_lot = getattr(self.world, 'current_lot', {})
        self.world.current_lot[self.dev_id] = part


class ScrapCb:
    """Workload callback (receive callback of the inspection station right behind a batcher): every k-th part it
    receives is bad and the rest of the lot that part came from is scrapped - Batch.parts "can be modified directly" -
    i.e. the batcher's input is emptied in the middle of the batcher's hand-over."""

    def __init__(self, log, world, dev_id, batcher_id, every):
        self.log, self.world, self.dev_id, self.batcher_id, self.every, self.n = log, world, dev_id, batcher_id, every, 0

    def __call__(self, dev, part):
        if instrument.PROBING:
            return
        self.n += 1
        if self.n % self.every:
            return
        lot = getattr(self.world, 'current_lot', {}).get(self.batcher_id)
        members = getattr(lot, 'parts', None)
        if not members:
            return
        self.log.scrapped = getattr(self.log, 'scrapped', set())
        for u in members:
            self.log.scrapped.add(getattr(u, 'huid', None) or 'anon:%d' % id(u))
        self.log.scrap_events = getattr(self.log, 'scrap_events', 0) + 1
        members.clear()


class SinkFeeCb:
    """Workload callback (receive callback of a sink): the part that has just been received is written down by a fee -
    after receipt, so the sink has booked the value the part had when it arrived."""

    def __init__(self, fee):
        self.fee = fee

    def __call__(self, dev, part):
        if instrument.PROBING:
            return
        for leaf in leaves_of(part):
            if getattr(leaf, 'env', None) is not None:
                leaf.add_value('written_off_at_the_sink', -self.fee)


class StopInReleaseWindowCb:
    """Workload callback (finish callback of a resource-holding processor): every k-th finish it schedules, for this
    very instant, a planned stop at a priority just below the machine's release check (so the stop lands between
    FINISH_PROCESSING and the release of the reservation), a failure half a time unit later and a restore after one."""

    def __init__(self, every):
        self.every, self.n = every, 0

    def __call__(self, dev, part):
        if instrument.PROBING:
            return
        self.n += 1
        if self.n % self.every:
            return
        from simprocesd.model.simulation import EventType
        env = dev.env
        env.schedule_event(env.now, dev.id, dev.shutdown, EventType.RELEASE_RESERVED_RESOURCES + 0.5)
        dev.schedule_failure(env.now + 0.5)
        env.schedule_event(env.now + 1.0, -2, dev.restore_functionality, EventType.RESTORE)


class NosyCb:
    """Workload callback (receive callback on a Buffer): user code that looks at the buffer that is calling it."""

    def __call__(self, dev, part):
        dev.level()
        dev.stored_parts
        dev.upstream
        dev.waiting_for_part_start_time


class TrimCb:
    """Workload callback (receive callback on a Buffer): every k-th arriving Batch loses its last part (Batch.parts may
    be modified directly; the removed part is kept by the user)."""

    def __init__(self, every):
        self.every, self.n, self.kept = every, 0, []

    def __call__(self, dev, part):
        if instrument.PROBING:
            return
        parts = getattr(part, 'parts', None)
        if parts is None or len(parts) < 2:
            return
        self.n += 1
        if self.n % self.every == 0:
            self.kept.append(parts.pop())


class RestoredCb:
    def __init__(self, log, dev_id, idx):
        self.log, self.dev_id, self.idx = log, dev_id, idx

    def __call__(self, dev):
        if instrument.PROBING:
            return
        self.log.restores.append((self.log.now(), self.dev_id, self.idx, self.log.serial()))


class CtScript:
    """Workload callback: sets the cycle time from the receive callback."""

    def __init__(self, values):
        self.values = values
        self.k = 0

    def __call__(self, dev, part):
        dev.cycle_time = self.values[self.k % len(self.values)]
        self.k += 1


def units_of(part):
    parts = getattr(part, 'parts', None)
    return [part] if parts is None else list(parts)


def leaves_of(part):
    parts = getattr(part, 'parts', None)
    if parts is None:
        return [part]
    out = []
    for p in parts:
        out.extend(leaves_of(p))
    return out


class ValueCb:
    """Workload callback: a processor adds value / changes quality."""

    def __init__(self, add, qmul):
        self.add, self.qmul = add, qmul

    def __call__(self, dev, part):
        for leaf in leaves_of(part):
            if self.add:
                leaf.add_value('processing', self.add)
            if self.qmul is not None:
                leaf.quality = leaf.quality * self.qmul


class BlockByState:
    """Scheduler override action: a falsy state blocks the device's input."""

    def __init__(self, log=None, sched_id=None):
        self.log, self.sched_id = log, sched_id

    def __call__(self, scheduler, obj, time, state):
        if self.log is not None and not instrument.PROBING:
            self.log.sched_calls.append((self.log.now(), self.sched_id, obj.name, time, state, self.log.serial()))
        obj.block_input = not bool(state)


class FinishOffsetCb:
    """Workload callback: from its own finish-processing callback a processor asks for a one-shot offset of
    the NEXT cycle (every k-th part)."""

    def __init__(self, log, dev_id, every, offset):
        self.log, self.dev_id, self.every, self.offset = log, dev_id, every, offset
        self.n = 0

    def __call__(self, dev, part):
        self.n += 1
        if self.n % self.every == 0:
            dev.offset_next_cycle_time(self.offset)
            if not instrument.PROBING:
                self.log.cb_offsets.append((self.log.now(), self.dev_id, self.offset, self.log.serial()))


class World:
    """The light object graph that probes deep-copy: system + devices."""

    def __init__(self):
        self.system = None
        self.devs = {}
        self.groups = {}
        self.rm = None
        self.extra = []        # assets created by the script during the run


class ScriptAction:
    def __init__(self, world, op, log):
        self.world, self.op, self.log = world, op, log
        self.__name__ = 'script_' + op['op']

    def __call__(self):
        w, op = self.world, self.op
        kind = op['op']
        out = None
        dev = w.devs.get(op.get('target'))
        try:
            if kind == 'fail':
                dev.schedule_failure(w.system.env.now)
            elif kind == 'shutdown':
                dev.shutdown()
            elif kind == 'restore':
                dev.restore_functionality()
            elif kind == 'work_order':
                out = w.devs[op['maint']].create_work_order(dev, op['tag'])
            elif kind == 'block':
                dev.block_input = True
            elif kind == 'unblock':
                dev.block_input = False
            elif kind == 'add_capacity':
                try:
                    w.rm.add_resources(op['res'], op['amount'])
                    out = 'ok'
                except ValueError:
                    out = 'rejected'
            elif kind == 'adjust_budget':
                dev.adjust_part_count(op['n'])
            elif kind == 'offset_cycle':
                dev.offset_next_cycle_time(op['offset'])
            elif kind == 'set_cycle':
                dev.cycle_time = op['ct']           # affects future cycles, not the one in progress
            elif kind == 'rewire':
                new = w.devs[op['new_up']]
                ups = dev.upstream
                if new not in ups:
                    dev.set_upstream(ups + [new])
                    out = 'added'
            elif kind == 'detach':
                # a station taken out of the line: whatever fed it (a gate, a junction) keeps its place in its own
                # upstream's list and leads nowhere for the time being
                w.saved_up = getattr(w, 'saved_up', {})
                if dev.upstream:
                    w.saved_up[op['target']] = dev.upstream
                    dev.set_upstream([])
                    out = 'detached'
            elif kind == 'reattach':
                ups = getattr(w, 'saved_up', {}).pop(op['target'], None)
                if ups:
                    dev.set_upstream(ups)
                    out = 'reattached'
            elif kind == 'rewire_many':
                # several connections added by one call (a merge point wired up while the line is running)
                ups = dev.upstream
                new = [w.devs[x] for x in op['new_ups'] if w.devs[x] not in ups]
                if new:
                    dev.set_upstream((new + ups) if op.get('front') else (ups + new))
                    out = 'added:%d' % len(new)
            elif kind == 'rewire_bad':
                # a connection change the library must refuse; the caller catches the error and carries on
                ups = dev.upstream
                bad = dev if op['bad'] == 'self' else 'not a device'
                new = {'bad_first': [bad] + ups, 'bad_only': [bad], 'bad_last': ups[:1] + [bad]}[op['form']]
                try:
                    dev.set_upstream(new)
                    out = 'accepted'
                except (TypeError, AssertionError, RuntimeError) as e:
                    out = 'refused:' + type(e).__name__
            elif kind == 'scratch_env':
                ids = [d.id for d in list(w.devs.values())[:4] if hasattr(d, 'id')] or [1]
                w.extra_scratch = getattr(w, 'extra_scratch', [])
                w.extra_scratch.append(instrument.scratch_environment(ids + [-1] if op.get('with_minus_one') else ids,
                                                                      pools=op.get('pools')))
                out = len(ids)
            elif kind == 'sched_pause':
                w.system.env.pause_matching_events(asset_id=w.devs[op['sched']].id)
            elif kind == 'sched_resume':
                w.system.env.unpause_matching_events(asset_id=w.devs[op['sched']].id)
            elif kind == 'sched_unregister':
                out = w.devs[op['sched']].unregister_object(w.devs[op['target']])
            elif kind == 'sched_register':
                out = w.devs[op['sched']].register_object(w.devs[op['target']], BlockByState(None, op['sched']))
            elif kind == 'bad_history_removal':
                # a request the library must refuse: removing an entry the batch's own history does not have
                n = 0
                for d in w.devs.values():
                    tops = []
                    o = getattr(d, '_output', None)
                    if o is not None:
                        tops.append(o)
                    tops.extend(x[1] for x in getattr(d, '_buffer', []) or [])
                    for t in tops:
                        if getattr(t, 'parts', None) is not None and hasattr(t, 'routing_history'):
                            try:
                                t.remove_from_routing_history(-(len(t._routing_history) + 1))
                                n += 1000
                            except IndexError:
                                n += 1
                out = n
            elif kind == 'rewire_remove':
                # the documented way to change connections: read the list, edit it, set it again
                ups = dev.upstream
                cands = [u for u in ups if len(u._downstream) >= 2]
                if len(ups) >= 2 and cands:
                    x = cands[op.get('k', 0) % len(cands)]
                    ups.remove(x)
                    dev.set_upstream(ups)
                    out = 'removed:' + x.name
            elif kind == 'late_path':
                # a shared group, a path through it and a sink created while the simulation is running; the path
                # gets its upstream at creation and its downstream afterwards
                from simprocesd.model.factory_floor import PartHandler, Group, Sink
                n = len(w.extra)
                member = PartHandler(name=f'late_member_{n}', cycle_time=op.get('ct', 0.5))
                grp = Group(f'late_group_{n}', [member])
                path = grp.get_new_group_path(f'late_path_{n}', [dev])
                sink = Sink(name=f'late_sink_{n}', upstream=[path])
                w.extra.extend([member, path, sink])
                out = path.name
            elif kind == 'flag_waiting':
                # the user edits, in place, a user attribute of every part that is waiting in a device's output
                n = 0
                for d in w.devs.values():
                    o = getattr(d, '_output', None)
                    if o is not None and hasattr(o, 'routing_history'):
                        o.h_flag = not getattr(o, 'h_flag', False)
                        n += 1
                out = n
            elif kind == 'new_collected':
                # the user sets the parts collected so far aside and gives every collecting sink a fresh list
                # (collected_parts is a documented public attribute)
                n = 0
                for d in w.devs.values():
                    if getattr(d, '_collect_parts', False) and hasattr(d, 'collected_parts'):
                        w.set_aside = getattr(w, 'set_aside', [])
                        w.set_aside.append((d, d.collected_parts, list(d.collected_parts)))
                        d.collected_parts = []
                        n += 1
                out = n
            elif kind == 'clear_data':
                # the user discards the statistics gathered so far by editing the public dictionary in place
                data = w.system.simulation_data
                if op.get('label'):
                    data.pop(op['label'], None)
                    out = 'deleted:' + op['label']
                else:
                    data.clear()
                    out = 'cleared'
            elif kind == 'reprice_waiting':
                # the user re-prices, in place, every part that is waiting in a device's output
                n = 0
                for d in w.devs.values():
                    o = getattr(d, '_output', None)
                    if o is not None and hasattr(o, 'routing_history'):
                        for leaf in leaves_of(o):
                            leaf.add_value('repriced', op['delta'])
                            n += 1
                out = n
            elif kind == 'env_run':
                # the user drives the public Environment directly between two simulate() calls
                w.system.env.run(op['d'])
            elif kind == 'env_step':
                for _ in range(op.get('n', 1)):
                    if w.system.env._events:
                        w.system.env.step()
            elif kind == 'create_asset':
                # an asset with a value of its own created while the simulation is running
                from simprocesd.model.factory_floor import Maintainer, PartHandler
                n = len(w.extra)
                if op.get('what') == 'processor':
                    from simprocesd.model.factory_floor import PartProcessor as _PP
                    a = _PP(name=f'late_processor_{n}', value=op['value'])
                elif op.get('what') == 'handler':
                    a = PartHandler(name=f'late_handler_{n}', value=op['value'])
                else:
                    a = Maintainer(name=f'late_maintainer_{n}', value=op['value'])
                w.extra.append(a)
                out = a.name
            else:
                raise ValueError(kind)
        finally:
            if not instrument.PROBING:
                self.log.script.append((self.log.now(), op, out, self.log.serial()))


core.load_library()
from simprocesd.model.factory_floor import PartProcessor, PartGenerator, Part, Batch, PartHandler  # noqa: E402


def order_cost(item, tag, n_done):
    """Cost of a work order with this tag on this processor, given how many orders with the tag it has completed
    (a machine may get dearer - or cheaper - with every service)."""
    wo = item.get('wo') or {}
    if tag not in wo:
        return 0
    return wo[tag][2] + item.get('wo_cost_step', 0) * n_done


class HProc(PartProcessor):
    """PartProcessor whose work orders have durations / capacities / costs from the spec."""

    def __init__(self, name, upstream, cycle_time, resources_for_processing, wo, log, dev_id, cost_step=0):
        self.h_cost_step = cost_step
        self.h_done = {}
        self.h_wo = wo or {}
        self.h_log = log
        self.h_id = dev_id
        super().__init__(name=name, upstream=upstream, cycle_time=cycle_time,
                         resources_for_processing=resources_for_processing)

    def get_work_order_duration(self, tag):
        return self.h_wo[tag][0] if tag in self.h_wo else super().get_work_order_duration(tag)

    def get_work_order_capacity(self, tag):
        return self.h_wo[tag][1] if tag in self.h_wo else super().get_work_order_capacity(tag)

    def get_work_order_cost(self, tag):
        if tag in self.h_wo:
            return self.h_wo[tag][2] + self.h_cost_step * self.h_done.get(tag, 0)
        return super().get_work_order_cost(tag)

    def start_work(self, tag):
        if not instrument.PROBING:
            self.h_log.hooks.append((self.h_log.now(), self.h_id, 'start', tag, self.h_log.serial()))
            # the books as the target's hook can read them: the order that is starting has been charged
            mo = getattr(self.h_log, 'maint_objs', None)
            if isinstance(mo, dict):
                self.h_log.hook_views.append((self.h_log.serial(), self.h_id, tag, {k: v.value for k, v in mo.items()}))
        super().start_work(tag)

    def end_work(self, tag):
        if not instrument.PROBING:
            self.h_log.hooks.append((self.h_log.now(), self.h_id, 'end', tag, self.h_log.serial()))
        self.h_done[tag] = self.h_done.get(tag, 0) + 1
        super().end_work(tag)


from simprocesd.model.factory_floor import DecisionGate as _DecisionGate  # noqa: E402


class SubclassGate(_DecisionGate):
    """A gate that decides by overriding part_pass_decider instead of passing decider_override."""

    def __init__(self, name, upstream, pred):
        self.h_pred = Pred(pred)
        super().__init__(name=name, upstream=upstream)

    def part_pass_decider(self, part):
        return self.h_pred(self, part)


class HTray(Part):
    """A user-defined kind of Part that is falsy: a container whose __len__ is the number of things in it (0)."""

    def __len__(self):
        return 0


class HPallet(Batch):
    """A user-defined kind of Batch (documented extension point: generate_part_helper may return any Part)."""

    def __init__(self, name, parts, pallet_no):
        super().__init__(name=name, parts=parts)
        self.pallet_no = pallet_no


class HGen(PartGenerator):
    """Part generator that stamps every leaf part with a harness uid."""

    def __init__(self, src_id, values, qualities, batch_sizes, log, scratch=False, batch_sub=False,
                 batch_nested=False, falsy=False, batch_append=False):
        super().__init__(name_prefix=src_id)
        self.falsy = falsy
        self.batch_append = batch_append
        self.batch_sub = batch_sub
        self.batch_nested = batch_nested
        self.scratch = [] if scratch else None
        self.src_id = src_id
        self.values = values
        self.qualities = qualities
        self.batch_sizes = batch_sizes
        self.log = log

    def __deepcopy__(self, memo):
        import copy
        g = HGen(self.src_id, self.values, self.qualities, self.batch_sizes, NULL_LOG, batch_sub=self.batch_sub,
                 batch_nested=self.batch_nested, falsy=self.falsy, batch_append=self.batch_append)
        memo[id(self)] = g
        # the generator's own state (the base class numbers the parts) travels with the copy; only the log does not
        for k, v in self.__dict__.items():
            if k != 'log':
                g.__dict__[k] = copy.deepcopy(v, memo)
        return g

    def _leaf(self, name, n, k, j):
        v = self.values[j % len(self.values)]
        q = self.qualities[j % len(self.qualities)]
        p = (HTray if self.falsy else Part)(name=name, value=v, quality=q)
        p.huid = f'{self.src_id}:{n}' if k is None else f'{self.src_id}:{n}.{k}'
        p.hseq = n
        p.hsrc = self.src_id
        p.h_initial_value = v
        return p

    def generate_part_helper(self, part_name, n):
        src = getattr(self, 'h_source', None)
        if src is not None and not instrument.PROBING and getattr(src, 'env', None) is not None:
            # the Source's books as its generator hook can read them while making part n
            try:
                recs = src.env.simulation_data.get('supplied_new_part', {}).get(src.name, [])
                self.log.gen_views.append((self.src_id, n, src.produced_parts, src.value, src.cost_of_produced_parts,
                                           len(recs), recs[-1][1] if recs else None,
                                           getattr(self, 'h_prev_top_id', None)))
            except Exception:
                pass
        top = self._make_part(part_name, n)
        self.h_prev_top_id = getattr(top, 'id', None)
        return top

    def _make_part(self, part_name, n):
        if self.batch_sizes:
            size = self.batch_sizes[(n - 1) % len(self.batch_sizes)]
            parts = [self._leaf(f'{part_name}.{k}', n, k, n + k) for k in range(size)]
            if self.scratch is not None:
                # a generator that builds every Batch in ONE scratch list (legal when the list has been
                # emptied by the time the next Batch is built, e.g. by a PartBatcher that unpacked it)
                self.scratch.clear()
                self.scratch.extend(parts)
                top = Batch(name=part_name, parts=self.scratch)
            elif self.batch_nested and len(parts) >= 2:
                # a pallet of boxes: a Batch whose parts are Batches
                k = max(1, len(parts) // 2)
                boxes = [Batch(name=f'{part_name}/box{j}', parts=parts[j * k:(j + 1) * k] if j == 0 else parts[k:])
                         for j in range(2)]
                top = Batch(name=part_name, parts=boxes)
            elif self.batch_append:
                # the way examples/BatchProcessing.py fills a batch: made empty, filled through Batch.parts
                top = Batch(name=part_name)
                for x in parts:
                    top.parts.append(x)
            elif self.batch_sub:
                top = HPallet(part_name, parts, n)
            else:
                top = Batch(name=part_name, parts=parts)
            top.hseq = n
            top.hsrc = self.src_id
            top.huid = f'{self.src_id}:{n}#'
        else:
            top = self._leaf(part_name, n, None, n - 1)
            parts = [top]
        lg = self.log
        lg.generated.append(top)
        lg.leaves.extend(parts)
        return top


class HSetupProc(HProc):
    """A user's machine type in the style of the shipped examples: it overrides a device hook so that a set-up time
    passes between receiving a part and starting to process it."""

    def __init__(self, *a, setup_time=0.5, **k):
        self.h_setup_time = setup_time
        self.h_setup_done = False
        super().__init__(*a, **k)

    def _try_move_part_to_output(self):
        if not self.is_operational() or self._part is None or self._output is not None:
            return
        if not self.h_setup_done:
            from simprocesd.model.simulation import EventType
            self._env.schedule_event(self._env.now + self.h_setup_time, self.id, self.h_finish_setup,
                                     EventType.OTHER_HIGH_PRIORITY, f'setup of {self.name}')
            return
        self.h_setup_done = False
        super()._try_move_part_to_output()

    def h_finish_setup(self):
        self.h_setup_done = True
        self._try_move_part_to_output()


class HLenHandler(PartHandler):
    """A user's station type whose length is the number of parts it has passed on so far (so it is falsy until the
    first part has left it)."""

    def __init__(self, *a, **k):
        self.h_seen = 0
        super().__init__(*a, **k)

    def __len__(self):
        return self.h_seen

    def _pass_part_downstream(self):
        had = self._output
        super()._pass_part_downstream()
        if had is not None and self._output is None:
            self.h_seen += 1        # (counts the parts that have left it)


def classes():
    return {'HProc': HProc, 'HGen': HGen}


class Model:
    def __init__(self, spec):
        self.spec = spec
        self.world = World()
        self.log = ModelLog()
        self.items = {i['id']: i for i in spec['items']}
        self.kinds = {i['id']: i['kind'] for i in spec['items']}
        self.id_of = {}          # python id(obj) -> spec id

    @property
    def system(self):
        return self.world.system

    @property
    def env(self):
        return self.world.system.env

    @property
    def devs(self):
        return self.world.devs


def build(spec, bus=None, script=True, system=None, known=None):
    """Create the real objects.  Must run with the bus active (events created
    here get serials / tie weights)."""
    core.load_library()
    from simprocesd.model import System, ResourceManager
    from simprocesd.model.factory_floor import (PartHandler, Buffer, DecisionGate, PartFlowController,
                                                PartBatcher, Source, Sink, Group, Maintainer)
    cls = classes()
    m = Model(spec)
    w = m.world
    log = m.log
    log.bus = bus
    modelgen.GATE_LOG = log.gate_calls
    if system is None:
        rm = ResourceManager()
        for r, c in sorted(spec.get('resources', {}).items()):
            rm.add_resources(r, c)
        w.rm = rm
        w.system = System(resource_manager=rm)
    else:
        rm = system.resource_manager
        for r, c in sorted(spec.get('resources', {}).items()):
            rm.add_resources(r, c)
        w.rm = rm
        w.system = system
    log.env = w.system.env
    default_names = bool(spec.get('default_names'))
    for it in spec['items']:
        i, k = it['id'], it['kind']
        nm = None if default_names else i
        if it.get('np') and 'ct' in it:
            # a user who computes the model's parameters with numpy hands over numpy scalars
            import numpy as _np
            it = dict(it, ct=_np.float64(it['ct']))
        ups = [w.devs[u] if u in w.devs else known[u] for u in it.get('up', [])]
        if k == 'source':
            gen = cls['HGen'](i, it.get('values', [0]), it.get('qualities', [1]), it.get('batch'), log,
                              scratch=bool(it.get('scratch')), batch_sub=bool(it.get('batch_sub')),
                              batch_nested=bool(it.get('batch_nested')), falsy=bool(it.get('falsy')),
                              batch_append=bool(it.get('batch_append')))
            kw = {}
            if it.get('budget') is not None:
                kw['starting_parts'] = it['budget']
            gen.h_source = None
            d = Source(name=nm, part_generator=gen, cycle_time=it['ct'], **kw)
            gen.h_source = d
        elif k == 'handler':
            d = (HLenHandler if it.get('len_dev') else PartHandler)(name=nm, upstream=ups, cycle_time=it['ct'],
                                                                    value=it.get('value', 0))
            if it.get('conwip'):
                d.add_receive_part_callback(ConwipCb(log, w, i, it['conwip']))
            if it.get('scrap'):
                d.add_receive_part_callback(ScrapCb(log, w, i, it['scrap']['batcher'], it['scrap']['every']))
        elif k == 'processor':
            if it.get('setup'):
                d = HSetupProc(nm, ups, it['ct'], dict(it['res']) if it.get('res') else None,
                               it.get('wo'), log, i, it.get('wo_cost_step', 0), setup_time=it['setup'])
            else:
                d = cls['HProc'](nm, ups, it['ct'], dict(it['res']) if it.get('res') else None,
                                 it.get('wo'), log, i, it.get('wo_cost_step', 0))
            if it.get('ct_script'):
                d.add_receive_part_callback(CtScript(it['ct_script']))
            if it.get('value_add') or it.get('quality_mul') is not None:
                d.add_finish_processing_callback(ValueCb(it.get('value_add'), it.get('quality_mul')))
            if it.get('finish_offset'):
                d.add_finish_processing_callback(FinishOffsetCb(log, i, it['finish_offset'][0], it['finish_offset'][1]))
            d.add_finish_processing_callback(FinishCb(log, i))
            for n in range(3):
                d.add_shutdown_callback(ShutdownCb(log, i, n))
                d.add_restored_callback(RestoredCb(log, i, n))
            if it.get('refuse'):
                d.add_shutdown_callback(RefuseCb(log, i, it['refuse']))
            if it.get('stop_in_release_window'):
                d.add_finish_processing_callback(StopInReleaseWindowCb(it['stop_in_release_window']))
            if it.get('insert_part'):
                d.add_finish_processing_callback(InsertCb(log, i, it['insert_part']))
            if it.get('raise_at'):
                d.add_finish_processing_callback(RaiseCb(it['raise_at']))
            if it.get('raise_shutdown'):
                d.add_shutdown_callback(RaiseOnStop(it['raise_shutdown'], 'shutdown'))
            if it.get('raise_restored'):
                d.add_restored_callback(RaiseOnStop(it['raise_restored'], 'restored'))
        elif k == 'buffer':
            d = Buffer(name=nm, upstream=ups, minimum_delay=it.get('delay', 0), capacity=it.get('cap'),
                       value=it.get('value', 0))
            if it.get('nosy'):
                d.add_receive_part_callback(NosyCb())
            if it.get('trim'):
                d.add_receive_part_callback(TrimCb(it['trim']))
        elif k == 'gate':
            if it.get('subclass'):
                d = SubclassGate(nm, ups, it['pred'])
            else:
                d = DecisionGate(name=nm, upstream=ups, decider_override=Pred(it['pred']))
        elif k == 'flow':
            d = PartFlowController(name=nm, upstream=ups)
        elif k == 'batcher':
            d = PartBatcher(name=nm, upstream=ups, output_batch_size=it.get('size'))
            if it.get('lot_seen'):
                d.add_receive_part_callback(LotSeenCb(w, i))
        elif k == 'sink':
            d = Sink(name=nm, upstream=ups, cycle_time=it.get('ct', 0), collect_parts=it.get('collect', False))
        elif k == 'group':
            kw = {}
            if it.get('inputs'):
                kw['input_override'] = [w.devs[x] for x in it['inputs']]
            if it.get('outputs'):
                kw['output_override'] = [w.devs[x] for x in it['outputs']]
            g = Group(i, [w.devs[x] for x in it['members']], **kw)
            w.groups[i] = g
            continue
        elif k == 'path':
            d = w.groups[it['group']].get_new_group_path(nm, ups)
        elif k == 'maintainer':
            kw = {}
            if it.get('cap') is not None:
                kw['capacity'] = it['cap']
            d = Maintainer(name=i, value=it.get('value', 0), **kw)
            log.maint_objs[i] = d
        elif k == 'scheduler':
            from simprocesd.model.factory_floor import ActionScheduler
            kw = {}
            if it.get('cyclical') is not None:
                kw['is_cyclical'] = it['cyclical']
            d = ActionScheduler([tuple(x) for x in it['timetable']], name=i, **kw)
            for tgt in it.get('targets', []):
                d.register_object(w.devs[tgt], BlockByState(log, i))
        elif k == 'psensor':
            from simprocesd.model.sensors import PeriodicSensor, AttributeProbe
            kw = {}
            if it.get('capacity') is not None:
                kw['data_capacity'] = it['capacity']
            d = PeriodicSensor(it['interval'], [AttributeProbe(a, w.devs[it['target']]) for a in it['attrs']],
                               name=i, **kw)
        elif k == 'osensor':
            from simprocesd.model.sensors import OutputPartSensor, AttributeProbe
            kw = {}
            if it.get('capacity') is not None:
                kw['data_capacity'] = it['capacity']
            d = OutputPartSensor(w.devs[it['target']], [AttributeProbe(a, None) for a in it['attrs']],
                                 sensing_interval=it.get('n', 0), name=i, **kw)
        elif k == 'cms':
            from simprocesd.model.cms import Cms
            d = Cms(w.devs[it['maint']], name=i)
            for sn in it.get('sensors', []):
                d.add_sensor(w.devs[sn])
        else:
            raise ValueError(k)
        if isinstance(d, PartHandler) and k != 'source':
            if it.get('pre_offset') and hasattr(d, 'offset_next_cycle_time'):
                d.offset_next_cycle_time(it['pre_offset'])
            d.add_receive_part_callback(ReceiveCb(log, i))
        if k == 'sink' and it.get('fee'):
            # a receive callback of the sink that writes part of the received part's value off (after receipt)
            d.add_receive_part_callback(SinkFeeCb(it['fee']))
        w.devs[i] = d
        m.id_of[id(d)] = i
    if script:
        env = w.system.env
        shift = spec.get('script_shift', 0)
        for op in spec.get('script', []):
            env.schedule_event(op['t'] + shift, -2, ScriptAction(w, op, log), op['prio'])
    return m
