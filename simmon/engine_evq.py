"""Operation-sequence engine for the Environment (C01, C07).

A case is a list of operations:
   ["sched", asset, dt, prio, nested]   schedule a harness action at now+dt; `nested` is a list of
                                        operations the action performs when it runs (sched / pause /
                                        unpause / cancel, also on its own asset)
   ["pause", a] ["unpause", a] ["cancel", a]
   ["step"]                             one Environment.step (skipped when nothing is pending)
   ["run", d]                           Environment.run(d)
The real Environment executes them with the QueueMonitor (refs/evq.py) attached
through the instrumentation; the engine itself only adds the run-window checks.
"""
import contextlib
import io
import math

from . import instrument, ties
from .refs.evq import QueueMonitor, OWNER


class HarnessError(Exception):
    """Raised by a harness action on purpose (user code failing in the middle of an event)."""


def _noop():
    return None


class HarnessAction:
    __slots__ = ('run', 'label', 'nested')

    def __deepcopy__(self, memo):
        return _noop          # (in a copy of the Environment the harness's actions do nothing)

    def __init__(self, run, label, nested):
        self.run = run
        self.label = label
        self.nested = nested

    def __call__(self):
        r = self.run
        r.exec_log.append((self.label, r.env.now))
        if self.nested:
            for op in self.nested:
                if op[0] == 'snapshot':
                    # a checkpoint taken from inside the running simulation: the Environment is deep-copied; the
                    # original must not notice, and the copy holds the live events the original holds
                    r.snapshot(inside=True)
                    continue
                if op[0] == 'raise':
                    # only when the caller drives the queue with step() and is prepared to catch
                    if r.step_driven:
                        r.sh.count('actions_that_raised')
                        r.raised_now = True
                        raise KeyboardInterrupt() if op[1] == 'kbd' else HarnessError('user code failed')
                    continue
                r.apply(op, nested=True)


class EvqRun:
    def __init__(self, sh, case, owner, exact=True):
        from simprocesd.model import Environment
        instrument.install()
        self.sh = sh
        self.case = case
        self.owner = owner
        self.exact = exact
        self.env = Environment()
        self.bus = instrument.Bus(ties.make_policy(case.get('tie', 'prng'), case.get('tie_seed', 0)))
        self.foreign = None
        self.qm = QueueMonitor(self.report, sh.count, exact=exact, owner=owner)
        self.qm.bus = self.bus
        self.bus.attach(self.qm)
        self.bus.attach(self)
        self.exec_log = []
        self.labels = 0
        self.failed = False
        self.runs = []
        self.step_driven = False
        self.raised_now = False

    # reports are filtered by property ownership; a discrepancy that belongs to
    # the other property ends the case (the model is out of sync) but is not
    # reported here
    def report(self, name, msg, witness):
        self.failed = True
        if OWNER.get(name) == self.owner:
            self.sh.violation(name, msg, self.case, witness=witness, engine='evq')
        else:
            self.sh.count('foreign_discrepancy_' + name)

    def after_event(self, env, head):
        # Event.execute is public: a second call must not run the action again
        s = getattr(head, 'h_sev', None)
        if self.raised_now:
            # the action did not complete: what a second execute() does then is not covered by the statement
            self.raised_now = False
            return
        if self.owner != 'C01' or s is None or self.qm.dead or s.cancelled:
            return
        n = s.calls
        with instrument.probing():
            head.execute()
        self.sh.count('second_execute_checked')
        if s.calls != n:
            self.report('at_most_once', f'a second execute() of event {s.brief()} ran its action again', {})

    def snapshot(self, inside):
        import copy
        import pickle
        env = self.env
        how = 'deepcopy'
        with instrument.probing():
            if self.labels % 3 == 0:
                try:
                    c = pickle.loads(pickle.dumps(env))
                    how = 'pickle'
                except Exception:
                    c = copy.deepcopy(env)      # (harness actions cannot always be pickled)
            else:
                c = copy.deepcopy(env)

        def live(evs, skip_end_marker):
            return sorted((e.time, e.asset_id, float(e.event_type), e.paused_at is not None) for e in evs
                          if not e.cancelled and not (skip_end_marker and e.asset_id == -1 and e.event_type == 1))
        self.sh.count('snapshots_taken_inside_an_action' if inside else 'snapshots_taken_between_operations')
        # (an implementation may leave the end marker of the run in progress out of a copy; nothing else)
        if live(c._events, True) != live(env._events, True):
            self.report('copy_pending_events', f'{how} of the Environment at {env.now!r}: the copy\'s live pending events '
                        f'{live(c._events, True)[:4]}.. differ from the original\'s {live(env._events, True)[:4]}..', {})
        elif live(c._paused_events, False) != live(env._paused_events, False):
            self.report('copy_paused_events', f'{how} of the Environment at {env.now!r}: the copy\'s live paused events '
                        f'{live(c._paused_events, False)[:4]}.. differ from the original\'s '
                        f'{live(env._paused_events, False)[:4]}..', {})
        elif c.now != env.now:
            self.report('copy_pending_events', f'{how} of the Environment: clock {c.now!r} vs {env.now!r}', {})

    def apply(self, op, nested=False):
        env = self.env
        kind = op[0]
        if kind == 'snapshot':
            if not nested:
                self.snapshot(inside=False)
            return
        if kind == 'scratch':
            # another Environment of the user's own, with events for the same asset ids, next to this one
            instrument.scratch_environment([1, 2, 3] if self.labels % 2 else [3, 1, -1])
            self.sh.count('scratch_environments')
            return
        if kind == 'sched':
            _, asset, dt, prio, inner = op
            self.labels += 1
            act = HarnessAction(self, self.labels, inner)
            if dt == 'eps':          # the largest representable time that is still in the past
                t = math.nextafter(env.now, -math.inf)
            elif dt == 'eps_rel':    # a time one part in 10^10 before now
                t = env.now - max(abs(env.now) * 1e-10, 1e-13)
            else:
                t = env.now + dt
            try:
                env.schedule_event(t, asset, act, prio)
            except ValueError:
                pass        # judged by the monitor's schedule_call
        elif kind == 'pause':
            env.pause_matching_events(op[1])
        elif kind == 'unpause':
            env.unpause_matching_events(op[1])
        elif kind == 'cancel':
            env.cancel_matching_events(op[1])
        elif kind == 'step':
            if nested:
                return
            if env._events:
                self.step_driven = True
                try:
                    with contextlib.redirect_stdout(io.StringIO()):     # the library prints the failed event
                        env.step()
                except (HarnessError, KeyboardInterrupt):
                    # user code failed inside an event; the caller catches it and carries on
                    self.sh.count('exceptions_caught_by_the_caller')
                finally:
                    self.step_driven = False
                self.sh.count('steps')
        elif kind == 'run':
            if nested:
                return
            self.do_run(op[1], traced=len(op) > 2 and op[2] == 'trace')

    def do_run(self, d, traced=False):
        env = self.env
        qm = self.qm
        t0 = env.now
        n0 = len(self.exec_log)
        if traced:
            # run(d, trace=True): the same run, with the executed events listed and exported afterwards
            # (~/Downloads/<name>_trace.json; HOME points at a scratch directory meanwhile)
            with scratch_home():
                env.run(d, trace=True)
            self.sh.count('traced_runs')
        else:
            env.run(d)
        self.sh.count('runs')
        if qm.dead:
            return
        end = t0 + d
        if env.now != end:
            self.report('run_window', f'run({d!r}) from {t0!r} ended with clock {env.now!r}, expected {end!r}', {})
            return
        for label, t in self.exec_log[n0:]:
            if t > end or t < t0:
                self.report('run_window', f'action {label} executed at {t!r} during run({d!r}) from {t0!r}', {})
                return
        left = [s.brief() for s in qm.pending.values() if s.time <= end and not s.cancelled]
        if left:
            self.report('run_window', f'after run({d!r}) from {t0!r}: live events due not later than {end!r} '
                        f'were not executed: {left[:3]}', {})
            return
        self.sh.count('run_windows_checked')

    def execute(self):
        with instrument.use_bus(self.bus):
            for op in self.case['ops']:
                if self.failed:
                    break
                if op[0] in ('run', 'step'):
                    self.apply(op)
                else:
                    with instrument.external(self.bus):     # the harness in the role of the user
                        self.apply(op)
        qm = self.qm
        return {'tie_groups': qm.tie_groups, 'nested': qm.nested_insertions,
                'shifted': qm.shifted_resumes, 'nonzero_resumes': qm.nonzero_resumes}


_HOME = [None]


class scratch_home:
    """HOME redirected to a per-process scratch directory that has a Downloads folder (removed at exit)."""

    def __enter__(self):
        import atexit
        import os
        import shutil
        import tempfile
        if _HOME[0] is None:
            _HOME[0] = tempfile.mkdtemp(prefix='simmon_home_', dir='/tmp')
            os.makedirs(os.path.join(_HOME[0], 'Downloads'))
            atexit.register(shutil.rmtree, _HOME[0], True)
        self.old = os.environ.get('HOME')
        os.environ['HOME'] = _HOME[0]

    def __exit__(self, *a):
        import os
        if self.old is None:
            os.environ.pop('HOME', None)
        else:
            os.environ['HOME'] = self.old


# ---------------------------------------------------------------------------
# generators

BUILTIN_PRIOS = [2, 3, 4, 5, 6, 7, 8, 9, 10, 11]
FRACTIONAL = [1.5, 2.5, 4.5, 5.5, 6.5, 7.5, 10.5, 11.5]


BIG_BASES = [2 ** 53, 1_700_000_000_000_000_000, 2 ** 60 + 1]


def random_ops(rng, decimal=False, pause_centric=False, aim_pauses=False, bigint=False, mass=False):
    """A random operation sequence of length 10-80."""
    grid = [0, 0, 0.125, 0.25, 0.5, 1, 1, 1.5, 2, 3]
    if decimal:
        grid = [0, 0, 0.1, 0.3, 0.334, 0.7, 1.1, 2.2, 0.05, 1 / 3]
    if bigint:
        # an integer tick clock far above 2**53 (e.g. nanoseconds since the epoch): int arithmetic is exact there,
        # float arithmetic is not
        grid = [0, 0, 1, 2, 3, 5, 8, 21, 200, 1000]
    prios = BUILTIN_PRIOS + FRACTIONAL
    assets = [1, 2, 3]

    def nested_ops(depth):
        out = []
        for _ in range(rng.choice([0, 0, 1, 1, 2])):
            x = rng.random()
            if x < 0.03 and depth == 0:
                out.append(['snapshot'] if rng.random() < 0.6 else ['scratch'])
                continue
            if x < 0.06 and depth == 0 and not bigint:
                # the action fails after what it has done so far (possibly a pause)
                out.append(['raise', rng.choice(['err', 'err', 'kbd'])])
                break
            if x < 0.45:
                out.append(['sched', rng.choice(assets), rng.choice(grid), rng.choice(prios),
                            nested_ops(depth + 1) if depth < 2 and rng.random() < 0.3 else None])
            elif x < 0.65:
                out.append(['pause', rng.choice(assets)])
            elif x < 0.85:
                out.append(['unpause', rng.choice(assets)])
            else:
                out.append(['cancel', rng.choice(assets)])
        return out or None

    ops = []
    # clock-moving prefix so that nothing interesting happens at time 0 only
    if bigint:
        base = rng.choice(BIG_BASES)
        ops.append(['sched', rng.choice(assets), base, rng.choice(prios), None])
        ops.append(['run', base])
    ops.append(['sched', rng.choice(assets), rng.choice(grid[2:]), rng.choice(prios), None])
    ops.append(['run', rng.choice(grid[2:])])
    if mass:
        # scale: one asset with 70-200 pending events, paused in two batches at different instants (events scheduled in
        # between) and resumed by one call; another asset with well over a hundred cancelled events still queued
        a, b = 1, 2
        g = [x for x in grid if x] or [1]
        for _ in range(rng.randint(70, 130)):
            ops.append(['sched', a, 10 * max(g) + rng.choice(g) * rng.randint(1, 40), rng.choice(prios), None])
        ops.append(['pause', a])
        ops.append(['run', rng.choice(g)])
        for _ in range(rng.randint(40, 90)):
            ops.append(['sched', a, 10 * max(g) + rng.choice(g) * rng.randint(1, 40), rng.choice(prios), None])
        for _ in range(rng.randint(110, 160)):
            ops.append(['sched', b, 1000 * max(g) + rng.choice(g) * rng.randint(1, 9), rng.choice(prios), None])
        ops.append(['run', rng.choice(g) * 3])
        ops.append(['pause', a])
        ops.append(['cancel', b])
        ops.append(['sched', b, rng.choice(g), 5, None])
        ops.append(['run', rng.choice(g) * 2])
        ops.append(['unpause', a])
        ops.append(['run', rng.choice(g)])
    if aim_pauses:
        # Pause an asset exactly at the instant one of its events is due, early in the run, and
        # resume it after a pause much longer than the time elapsed so far: this is where
        # original + (resume - pause) can round below the resume time (Sterbenz does not apply).
        for _ in range(rng.randint(1, 3)):
            a = rng.choice(assets)
            dt = rng.choice(grid[2:])
            ops.append(['sched', a, dt, 3, None])
            ops.append(['sched', 3 if a != 3 else 2, dt, 9, [['pause', a]]])
            ops.append(['run', dt])
            for _ in range(rng.randint(2, 6)):     # several additions: one alone never rounds below
                ops.append(['run', rng.choice(grid[2:]) * rng.randint(1, 9)])
            if rng.random() < 0.3:
                ops.append(['cancel', a])          # cancelled while paused: must stay dead after the resume
            ops.append(['unpause', a])
            ops.append(['run', rng.choice(grid[1:])])
    n = rng.randint(10, 80)
    w_pause = 0.3 if pause_centric else 0.15
    for _ in range(n):
        x = rng.random()
        if x < 0.40:
            dt = rng.choice(grid)
            if rng.random() < 0.04:
                dt = -rng.choice(grid[2:])       # attempt to schedule in the past
            elif rng.random() < 0.04 and not bigint:
                dt = rng.choice(['eps', 'eps_rel'])   # ... by the smallest possible margin
            ops.append(['sched', rng.choice(assets + [-1]) if rng.random() < 0.15 else rng.choice(assets), dt,
                        rng.choice(prios), nested_ops(0) if rng.random() < 0.35 else None])
        elif x < 0.40 + w_pause:
            y = rng.random()
            a = rng.choice(assets)
            if y < 0.4:
                ops.append(['pause', a])
                if rng.random() < 0.3:
                    ops.append(['pause', a])            # redundant
            elif y < 0.8:
                ops.append(['unpause', a])
                if rng.random() < 0.3:
                    ops.append(['unpause', a])
            else:
                ops.append(['cancel', a])
        elif x < 0.43 + w_pause:
            ops.append(['snapshot'] if rng.random() < 0.6 else ['scratch'])
        elif x < 0.75:
            ops.append(['step'])
        else:
            d = rng.choice(grid[1:])
            k = rng.choice([1, 1, 1, 2, 4])
            if k == 1 or decimal or bigint:
                ops.append(['run', d])
            else:
                for _ in range(k):
                    ops.append(['run', d / k if not decimal else d])
        if aim_pauses and rng.random() < 0.2:
            # pause an asset exactly at the instant one of its events is due: schedule an event
            # for `a` and, at the same instant with a higher priority, an action that pauses `a`.
            a = rng.choice(assets)
            dt = rng.choice(grid[2:])
            ops.append(['sched', a, dt, 3, None])
            ops.append(['sched', 3 if a != 3 else 2, dt, 9, [['pause', a]]])
            ops.append(['run', dt])
            ops.append(['run', rng.choice(grid[2:])])
            ops.append(['unpause', a])
            ops.append(['run', rng.choice(grid[1:])])
    ops.append(['run', rng.choice(grid[3:])])
    if mass:
        ops.append(['run', 60 * max(x for x in grid if x)])       # long enough for every resumed event
    if rng.random() < 0.2:
        # some of the runs are traced (run(d, trace=True)): the same window, the same order
        for op in ops:
            if op[0] == 'run' and len(op) == 2 and rng.random() < 0.5:
                op.append('trace')
    return ops


def run_case(sh, case, owner):
    r = EvqRun(sh, case, owner, exact=not case.get('decimal', False))
    try:
        feats = r.execute()
    except Exception as e:   # a crash of the real queue on a well-formed sequence
        import traceback
        if not r.failed:
            sh.violation('order' if owner == 'C01' else 'pause_scope',
                         f'library raised {type(e).__name__}: {e}', case,
                         witness={'traceback': traceback.format_exc()[-1500:]}, engine='evq')
        feats = {'tie_groups': 0, 'nested': 0, 'shifted': 0, 'nonzero_resumes': 0}
    return feats
