"""C13 - shutdown, failure and restore: machine state, lost parts, uptime accounting."""
from .. import engine_line

SPEC = {
    'level': 'exploration',
    'rule': ('generated lines with dense fault scripts (failures of idle / processing / output-holding / blocked / '
             'already-down machines, redundant shutdown and restore calls, work orders, several transitions per '
             'instant) under 4 tie-break policies; after EVERY event, for each processor: uptime and utilisation '
             'are compared (==) with integrals accumulated by the monitor, parts entering or leaving a machine '
             'that is down are flagged, every failure must report the part in process once to the three shutdown '
             'callbacks (in registration order) and in the failure log and keep a finished part, callback rounds '
             'must match state changes, undisturbed default work orders must keep the target down for exactly '
             'their duration; at every clock advance a finished part that a processor kept through its down time must not '
             'still sit in the (restored) processor while a downstream neighbour accepts it on a deep copy; a case is one model; non-trivial = a failure with a part in process and a restore; also: processors created while the clock runs, planned stops refused by a callback, failures due at the current instant while down for maintenance, shutdown / restored callbacks that fail once'),
    'floors': {'quick': {'accounting_checks': 50000, 'transitions': 2000, 'failures_with_part_in_process': 50,
                         'failures_with_finished_part_held': 10, 'failures_while_already_down': 20,
                         'work_orders_judged': 100},
               'thorough': {'accounting_checks': 1000000, 'transitions': 40000, 'failures_with_part_in_process': 1000,
                            'failures_with_finished_part_held': 200, 'failures_while_already_down': 400,
                            'work_orders_judged': 2000}},
    'assumptions': ['operational state is sampled at event boundaries (exact in a DES)',
                    'absolute uptime of late-created machines is not judged here (C20)'],
    'timeout_s': {'quick': 900, 'thorough': 7200},
}
MONITORS = ('machine', 'lostwake')


def nontrivial(f):
    return f.get('fail_with_part', 0) > 0 and f.get('transitions', 0) > 1


def run(sh):
    # (every case deep-copies the model at each instant with a finished part held: the thorough tier is sized by that)
    n = 400 if sh.tier == 'quick' else 12000
    engine_line.run_profile(sh, 'C13', 'faults', n, MONITORS, nontrivial)


def replay(sh, v):
    engine_line.replay_case(sh, 'C13', v['case'], MONITORS)
