"""C16 - value accounting adds up."""
from .. import engine_line

SPEC = {
    'level': 'exploration',
    'rule': ('generated lines with part generators of varying part values, processing callbacks that add value / '
             'cost, batches, failures losing valued parts, priced work orders, non-zero starting values, assets '
             'poked with add_value before the first simulate; after EVERY event: every asset and every live part: '
             'value == starting value + sum of history deltas, running totals, no zero entries, new entries '
             'stamped with the current time; source value == -(summed value of supplied parts) == '
             '-cost_of_produced_parts; sink value == summed value at receipt == value_of_received_parts; '
             'maintainer value == start - cost of started orders; batch value == sum of parts; system net value == '
             'sum over assets; a case is one model; non-trivial = >=3 distinct part values seen and a value '
             'changed by a callback; also: waiting parts re-priced in place, work-order costs that change with every order, pallets of boxes (nested batches)'),
    'floors': {'quick': {'value_identity_checks': 20000, 'supplies_valued': 2000, 'receipts_valued': 1000,
                         'orders_costed': 100, 'batch_value_checks': 500, 'prestart_pokes': 50},
               'thorough': {'value_identity_checks': 400000, 'supplies_valued': 40000, 'receipts_valued': 20000,
                            'orders_costed': 2000, 'batch_value_checks': 10000, 'prestart_pokes': 1000}},
    'assumptions': ['values on the dyadic grid: sums are exact'],
    'timeout_s': {'quick': 900, 'thorough': 7200},
}
MONITORS = ('values',)


def nontrivial(f):
    return f.get('distinct_part_values', 0) >= 3


def run(sh):
    n = 300 if sh.tier == 'quick' else 50000
    engine_line.run_profile(sh, 'C16', 'values', n, MONITORS, nontrivial)


def replay(sh, v):
    engine_line.replay_case(sh, 'C16', v['case'], MONITORS)
