"""C16 - value accounting adds up.

Second engine: the model is run to an instant, the whole System is duplicated
(copy.deepcopy, or dill as utils.save_object / load_object do), and the
DUPLICATE is continued on its own; after every slice of its run every asset and
every part in the duplicate must still satisfy the value identity, starting
from the value and history it had when it was duplicated.
"""
import random

from .. import build as build_mod
from .. import core, engine_line, instrument, modelgen

SPEC = {
    'level': 'exploration',
    'rule': ('generated lines with part generators of varying part values, processing callbacks that add value / '
             'cost, batches, failures losing valued parts, priced work orders, non-zero starting values, assets '
             'poked with add_value before the first simulate; after EVERY event: every asset and every live part: '
             'value == starting value + sum of history deltas, running totals, no zero entries, new entries '
             'stamped with the current time; source value == -(summed value of supplied parts) == '
             '-cost_of_produced_parts; sink value == summed value at receipt == value_of_received_parts; '
             'maintainer value == start - cost of started orders; batch value == sum of parts; system net value == '
             'sum over assets; a case is one model; non-trivial = >=3 distinct part values seen and a value '
             'changed by a callback; also: waiting parts re-priced in place, work-order costs that change with every order, pallets of boxes (nested batches); duplicates of the System (deepcopy / dill) continued on their own, audited after every slice of their run'),
    'floors': {'quick': {'value_identity_checks': 20000, 'supplies_valued': 2000, 'receipts_valued': 1000,
                         'orders_costed': 100, 'batch_value_checks': 500, 'prestart_pokes': 50,
                         'duplicate_value_identity_checks': 5000},
               'thorough': {'value_identity_checks': 400000, 'supplies_valued': 40000, 'receipts_valued': 20000,
                            'orders_costed': 2000, 'batch_value_checks': 10000, 'prestart_pokes': 1000,
                            'duplicate_value_identity_checks': 200000}},
    'assumptions': ['values on the dyadic grid: sums are exact'],
    'timeout_s': {'quick': 900, 'thorough': 7200},
}
MONITORS = ('values',)


def nontrivial(f):
    return f.get('distinct_part_values', 0) >= 3


def in_flight(system):
    """Parts (and batches, and their contents) sitting in the devices of a System."""
    out = []

    def add(p):
        if p is None or not hasattr(p, 'value_history'):
            return
        out.append(p)
        for q in getattr(p, 'parts', None) or []:
            add(q)
    for a in system.find_assets():
        for attr in ('_part', '_output'):
            add(getattr(a, attr, None))
        for entry in getattr(a, '_buffer', None) or []:
            add(entry[1] if isinstance(entry, (tuple, list)) and len(entry) > 1 else entry)
        for q in getattr(a, 'collected_parts', None) or []:
            add(q)
    return out


class DuplicateAudit:
    def __init__(self, sh, case, system, how):
        self.sh, self.case, self.system, self.how = sh, case, system, how
        self.base = {}
        self.failed = False
        self.sight()

    def sight(self):
        for a in list(self.system.find_assets()) + in_flight(self.system):
            if id(a) not in self.base:
                h = list(a.value_history)
                self.base[id(a)] = (a, a.value, h)
                if h and h[-1][3] != a.value and getattr(a, 'parts', None) is None:
                    self.fail(a, f'first seen with value {a.value!r} but its history ends at total {h[-1][3]!r}')

    def fail(self, a, msg):
        if not self.failed:
            self.failed = True
            self.sh.violation('duplicate_value_identity', f'System duplicated with {self.how} at {self.case["cut"]!r} and '
                              f'continued on its own; at {self.system.env.now!r} {type(a).__name__} {a.name}: {msg}',
                              self.case, engine='duplicate')

    def audit(self):
        self.sight()
        now = self.system.env.now
        for a, v0, h0 in self.base.values():
            if self.failed:
                return
            if getattr(a, 'parts', None) is not None:
                # a batch is worth the sum of its parts (it has no history of its own)
                if a.value != sum(q.value for q in a.parts):
                    self.fail(a, f'batch value {a.value!r}, its parts are worth {[q.value for q in a.parts]}')
                    return
                self.sh.count('duplicate_batch_value_checks')
                continue
            h = a.value_history
            if list(h[:len(h0)]) != h0:
                self.fail(a, f'the {len(h0)} history entries it had when duplicated have changed')
                return
            tot = v0
            for label, t, dv, total in h[len(h0):]:
                tot = tot + dv
                if dv == 0 or total != tot or not (self.case['cut'] <= t <= now):
                    self.fail(a, f'history entry {(label, t, dv, total)!r}: running total should be {tot!r} '
                              f'(value when duplicated {v0!r}, {len(h) - len(h0)} entries since)')
                    return
            if a.value != tot:
                self.fail(a, f'value {a.value!r}, but value when duplicated {v0!r} + the {len(h) - len(h0)} changes '
                          f'recorded since = {tot!r}')
                return
            self.sh.count('duplicate_value_identity_checks')


def duplicate_case(sh, i):
    import copy
    import io
    from simprocesd.model.factory_floor.asset import Asset
    seed = core.stable_int(sh.seed, 'C16dup', i) % (1 << 40)
    rng = random.Random(seed)
    spec = modelgen.generate(seed, 'values')
    total = sum(spec['horizon'])
    cut = rng.choice([0.0, 2.5, 2.5, 6.125, total / 2])
    if cut >= total:
        cut = total / 2
    how = rng.choice(['copy.deepcopy', 'dill'])
    case = {'engine': 'duplicate', 'seed': seed, 'cut': cut, 'how': how, 'i': i}
    instrument.install()
    bus = instrument.Bus(None)
    random.seed(seed)
    try:
        with instrument.use_bus(bus):
            m = build_mod.build(dict(spec, tie='native', seed=seed), bus=None)
            m.system.simulate(cut, print_summary=False)
            st, idc = random.getstate(), Asset._id_counter
            with instrument.probing():
                twin = None
                if how == 'dill':
                    try:
                        import dill
                        buf = io.BytesIO()
                        dill.dump(m.system, buf)
                        twin = dill.loads(buf.getvalue())
                    except Exception:
                        how = case['how'] = 'copy.deepcopy'     # (harness objects dill cannot take)
                        sh.count('duplicates_dill_could_not_take')
                if twin is None:
                    twin = copy.deepcopy(m.system)
                # the duplicate equals the original at this moment ...
                a0 = {a.id: (a.value, list(a.value_history)) for a in m.system.find_assets()}
                a1 = {a.id: (a.value, list(a.value_history)) for a in twin.find_assets()}
                if a0 != a1:
                    bad = next(k for k in a0 if a0[k] != a1.get(k))
                    sh.violation('duplicate_value_identity', f'System duplicated with {how} at {cut!r}: asset id {bad} has '
                                 f'value / history {a0[bad]} in the original, {a1.get(bad)} in the duplicate', case,
                                 engine='duplicate')
                    return
                au = DuplicateAudit(sh, case, twin, how)
                # ... and is continued on its own, in slices
                left = total - cut
                for k in range(8):
                    twin.env.run(left / 8)
                    au.audit()
                    if au.failed:
                        break
                if not au.failed:
                    sh.count('duplicates_continued:' + how)
                    if any(len(a.value_history) > len(h0) for a, v0, h0 in au.base.values()):
                        sh.count('duplicates_whose_values_changed_afterwards')
            random.setstate(st)
            Asset._id_counter = idc
    except build_mod.HarnessError:
        sh.count('duplicate_runs_ended_by_user_code_errors')
    sh.case_done(case, True)


def run(sh):
    n = 300 if sh.tier == 'quick' else 50000
    engine_line.run_profile(sh, 'C16', 'values', n, MONITORS, nontrivial)
    # sinks whose receive callback writes the received part down by a fee (the sink booked the value at receipt)
    engine_line.run_profile(sh, 'C16', 'values', n // 4, MONITORS, nontrivial, prefix='sink_fees_',
                            overrides={'p_sink_fee': 0.9}, tag='sinkfee')
    for i in sh.share(n // 3):
        duplicate_case(sh, i)


def replay(sh, v):
    if v['case'].get('engine') == 'duplicate':
        duplicate_case(sh, v['case']['i'])
        return
    engine_line.replay_case(sh, 'C16', v['case'], MONITORS)
