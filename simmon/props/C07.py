"""C07 - pausing, resuming and cancelling events preserves remaining delays."""
import itertools
import random

from .. import core, engine_evq, ties

SPEC = {
    'level': 'exploration',
    'rule': ('operation sequences on the real Environment (schedule, pause, unpause, cancel, step, run; '
             'nested operations issued from inside event actions) checked online against the reference '
             'queue model refs/evq.py: all sequences up to length L (5 quick / 7 thorough) over a 10-op '
             'pause-centric alphabet after a prefix that moves the clock off zero, enumerated completely '
             'under the fifo tie policy, then random sequences of length 10-80 under every tie policy (a quarter with decimal, not exactly representable times and pauses aimed at due instants, some cancelled while paused), plus generated production lines with dense fault '
             'scripts (maintenance pauses, failures cancel, restores resume) with the same queue model attached; '
             'non-trivial = an event was resumed after a pause of non-zero length that began at a '
             'non-zero time and later executed; distinct = by hash of the op list and tie policy; also: integer-tick clocks above 2**53 and actions that pause and then fail under a caller that catches'),
    'floors': {'quick': {'resumes_nonzero_pause_nonzero_time': 500, 'dispatches_checked': 5000,
                         'events_cancelled': 200, 'resumes_rounding_below_now': 5, 'line_events_resumed': 50, 'line_events_cancelled': 40},
               'thorough': {'resumes_nonzero_pause_nonzero_time': 10000, 'dispatches_checked': 100000,
                            'events_cancelled': 5000}},
    'exhaustive_key': 'exhaustive_sequences',
    'exhaustive_text': 'all sequences up to the length bound over the 10-op alphabet (after the fixed prefix)',
    'assumptions': ['pause/cancel never target asset id -1 (TERMINATE and resource-check events)',
                    'step()/run() are not re-entered from inside an action',
                    'times on the dyadic grid, so original + (resume - pause) is exact'],
    'timeout_s': {'quick': 600, 'thorough': 3600},
}

PREFIX = [['sched', 1, 3, 5, None], ['sched', 2, 2, 5, None], ['run', 1]]
ALPHABET = [['sched', 1, 1, 5, None], ['sched', 1, 2, 6, None], ['sched', 2, 1, 5, None],
            ['pause', 1], ['pause', 2], ['unpause', 1], ['unpause', 2], ['cancel', 1],
            ['run', 1], ['step']]
SUFFIX = [['run', 4], ['unpause', 1], ['unpause', 2], ['run', 8]]


def one(sh, ops, tie, tie_seed, exhaustive, decimal=False):
    case = {'engine': 'evq', 'ops': ops, 'tie': tie, 'tie_seed': tie_seed}
    if decimal:
        case['decimal'] = True
    f = engine_evq.run_case(sh, case, 'C07')
    sh.case_done(case, f['nonzero_resumes'] > 0)
    sh.count('exhaustive_sequences' if exhaustive else 'random_sequences')


def run(sh):
    L = 5 if sh.tier == 'quick' else 7
    nrand = 3000 if sh.tier == 'quick' else 100000
    k = 0
    for length in range(1, L + 1):
        for seq in itertools.product(range(len(ALPHABET)), repeat=length):
            k += 1
            if k % sh.n != sh.idx:
                continue
            ops = PREFIX + [ALPHABET[i] for i in seq] + SUFFIX
            one(sh, ops, 'fifo', 0, True)
    for i in sh.share(nrand):
        rng = random.Random(core.stable_int(sh.seed, 'C07', i))
        decimal = i % 4 == 3
        bigint = i % 12 == 5
        ops = engine_evq.random_ops(rng, decimal=decimal, pause_centric=True,
                                    aim_pauses=decimal or bigint or rng.random() < 0.3, bigint=bigint,
                                    mass=(i % 40 == 9))
        if i % 40 == 9:
            sh.count('mass_sequences')
        if bigint:
            sh.count('integer_clock_sequences')
        tie = ties.POLICIES[i % 4]     # prng, fifo, lifo, const
        one(sh, ops, tie, rng.randrange(1 << 30), False, decimal)
    # whole lines: maintenance shutdowns pause, failures cancel, restores resume the machine's events
    from .. import engine_line
    engine_line.run_profile(sh, 'C07', 'faults', 160 if sh.tier == 'quick' else 16000, ('queue',),
                            nontrivial=lambda f: f.get('shifted_resumes', 0) > 0, prefix='line_')


def replay(sh, v):
    if v['case'].get('engine') == 'line':
        from .. import engine_line
        engine_line.replay_case(sh, 'C07', v['case'], ('queue',))
    else:
        engine_evq.run_case(sh, v['case'], 'C07')
