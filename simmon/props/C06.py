"""C06 - cycle times are honoured exactly, one part at a time, across interruptions."""
from .. import engine_line

SPEC = {
    'level': 'exploration',
    'rule': ('generated lines with dense fault scripts (shutdown / restore / failure / work orders at and around '
             'due instants, several per instant at priorities above and below FINISH_PROCESSING, failures while '
             'already shut down), cycle times changed from receive callbacks and by one-shot offsets, under 4 '
             'tie-break policies; after EVERY event each handler / processor cycle is followed (accept, down '
             'intervals, finish or loss) and the operational time of every completed cycle is compared (==) with '
             'the cycle time in effect at acceptance; sources and sinks likewise; at every clock advance no due '
             'cycle may still be running; a case is one model; non-trivial = a cycle was interrupted by a '
             'shutdown and later completed; also: the configured cycle time tracked independently of the library, -inf one-shot offsets, planned stops refused by a callback, finish / shutdown / restored callbacks that fail once under a catching caller, long-history models'),
    'floors': {'quick': {'cycles_completed': 3000, 'cycles_completed_after_interruption': 40,
                         'cycles_ended_by_failure': 30, 'source_cycles_checked': 2000},
               'thorough': {'cycles_completed': 60000, 'cycles_completed_after_interruption': 2000,
                            'cycles_ended_by_failure': 600, 'source_cycles_checked': 40000}},
    'assumptions': ['times on the dyadic grid: operational-time sums are exact'],
    'timeout_s': {'quick': 900, 'thorough': 7200},
}
MONITORS = ('cycles',)


def nontrivial(f):
    return f.get('interrupted_completed', 0) > 0


def run(sh):
    n = 400 if sh.tier == 'quick' else 80000
    engine_line.run_profile(sh, 'C06', 'faults', n * 3 // 4, MONITORS, nontrivial)
    engine_line.run_profile(sh, 'C06', 'general', n // 4, MONITORS, nontrivial)
    # one-shot offsets requested between building the model and its first run
    engine_line.run_profile(sh, 'C06', 'faults', n // 4, MONITORS, nontrivial, prefix='warm_up_',
                            overrides={'p_pre_offset': 0.5}, tag='warmup')


def replay(sh, v):
    engine_line.replay_case(sh, 'C06', v['case'], MONITORS)
