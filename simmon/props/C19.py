"""C19 - sensors sample when they should and keep bounded, aligned data.

Engine (a): PeriodicSensor / plain Sensor on harness targets whose probed
attribute changes on a script (mutable values, to see the copy), with on-sense
callbacks and a condition-monitoring system registered once or twice.
Engine (b): OutputPartSensor on a processor in a small real line with failures.
The expected sampling instants are the k-fold repeated float addition of the
interval; the expected values are captured at the moment the sensing event is
dispatched (so same-instant ordering against the value-changing events is
taken from the dispatch log).
"""
import copy
import random

from .. import core, instrument, ties
from ..instrument import action_name

SPEC = {
    'level': 'exploration',
    'rule': ('(a) periodic sensors with dyadic and decimal intervals, data capacity 1-6 / unbounded, 1-4 probes '
             '(attribute probes and function probes on mutable values that change during the run), 0-3 on-sense '
             'callbacks, a Cms registered once or twice, horizons up to 200 samples, plus plain sensors sensed from '
             'script events; (b) output-part sensors with sensing interval 0-5 on a processor in source -> processor '
             '-> sink lines with failures and quality-changing callbacks; after EVERY event the sensor data, '
             'last_sense and the callback log are compared with the independently computed sampling schedule and '
             'the values captured at dispatch; a case is one configuration; non-trivial = more measurements than '
             'the data capacity (trimming happened) or an output-part sensor skipped parts; also: batches in front of the part sensor, kept value lists re-read after later measurements, on-sense callbacks that fail once, long histories'),
    'floors': {'quick': {'measurements_checked': 20000, 'trimmed_measurements': 3000, 'callback_calls_checked': 10000,
                         'cms_deliveries_checked': 3000, 'part_measurements_checked': 2000, 'parts_skipped': 1000},
               'thorough': {'measurements_checked': 500000, 'trimmed_measurements': 75000,
                            'callback_calls_checked': 250000, 'cms_deliveries_checked': 75000,
                            'part_measurements_checked': 50000, 'parts_skipped': 25000}},
    'assumptions': ['the k-th periodic sample time is the k-fold repeated float addition of the interval'],
    'timeout_s': {'quick': 900, 'thorough': 7200},
}


class HarnessError(Exception):
    pass


class Box:
    """A mutable value that is nevertheless hashable (like any ordinary user object)."""

    def __init__(self, x):
        self.x = x

    def __eq__(self, other):
        return isinstance(other, Box) and other.x == self.x

    def __hash__(self):
        return 17

    def __repr__(self):
        return f'Box({self.x})'


class Target:
    def __init__(self, name, v):
        self.name = name
        self.v = v


def getter(t):
    return t.v


class PeriodicRun:
    def __init__(self, sh, case):
        core.load_library()
        from simprocesd.model import System
        from simprocesd.model.sensors import PeriodicSensor, Sensor, AttributeProbe, Probe
        from simprocesd.model.cms import Cms
        from simprocesd.model.factory_floor import Maintainer
        instrument.install()
        self.sh, self.case = sh, case
        self.failed = False
        run = self
        self.bus = instrument.Bus(ties.make_policy(case.get('tie', 'prng'), case.get('tie_seed', 0)))
        self.bus.attach(self)

        class HCms(Cms):
            def on_sense(self, sensor, time, data):
                run.cms_log.append((sensor, time, list(data), self))
                if sensor is getattr(run, 'sensor', None):
                    run.mix_log.append(('cms', id(self)))
                run.keep(data, time, 'the Cms')

            def add_sensor(self, sensor):
                # (the order in which the sensor's consumers - plain callbacks and Cms - subscribed)
                if sensor is getattr(run, 'sensor', None) and ('cms', id(self)) not in run.reg_order:
                    run.reg_order.append(('cms', id(self)))
                super().add_sensor(sensor)

        with instrument.use_bus(self.bus):
            self.system = System()
            self.env = self.system.env
            self.targets = [Target(f'T{k}', Box(k) if v == 'BOX' else copy.deepcopy(v))
                            for k, v in enumerate(case['initial'])]
            self.probes = []
            for k, kind in enumerate(case['probe_kinds']):
                if kind == 'attr':
                    self.probes.append(AttributeProbe('v', self.targets[k]))
                elif kind == 'missing':
                    self.probes.append(AttributeProbe('nope', self.targets[k]))
                else:
                    self.probes.append(Probe(getter, self.targets[k]))
            self.classes = (PeriodicSensor, Sensor, HCms, Maintainer)
            self.sensor = None
            self.cms = None
            self.more_cms = []          # further condition-monitoring systems watching the same sensor
            self.ncb = 0
            self.mix_log = []
            self.reg_order = []
            self.cb_log = []
            self.cms_log = []
            self.kept = []
            self.t0 = 0.0
            self.twin = None
            if not case.get('late'):
                self.make_sensor()
        self.expected = []          # [(time, [values])] all measurements so far
        self.pending = None
        self.t_next = None
        self.count = 0

    def make_sensor(self):
        PeriodicSensor, Sensor, HCms, Maintainer = self.classes
        case = self.case
        kw = {}
        if case['capacity'] is not None:
            kw['data_capacity'] = case['capacity']
        if case['kind'] == 'periodic':
            self.sensor = PeriodicSensor(case['interval'], self.probes, name='sensor', **kw)
        else:
            self.sensor = Sensor(self.probes, name='sensor', **kw)
        if not case.get('cms_first'):
            for j in range(case['callbacks']):
                self.add_cb()
        if case['cms']:
            self.cms = HCms(Maintainer(name='m'), name='cms')
            for _ in range(case['cms']):
                self.cms.add_sensor(self.sensor)
            if case.get('twin') and case['kind'] == 'periodic':
                # a second sensor that happens to carry the same name, registered with the same Cms; the first
                # one is registered once more afterwards (must change nothing)
                self.twin = PeriodicSensor(case['interval'], [self.probes[0]], name='sensor')
                self.cms.add_sensor(self.twin)
                self.cms.add_sensor(self.sensor)
                self.cms.add_sensor(self.twin)
            if case.get('cms2'):
                # a second, independent condition-monitoring system watches the same sensor(s)
                self.add_cms()
        if case.get('cms_first'):
            # the condition-monitoring systems subscribed first, the plain callbacks afterwards (all before the first run)
            for j in range(case['callbacks']):
                self.add_cb()

    def add_cb(self):
        self.reg_order.append(('cb', self.ncb))
        self.sensor.add_on_sense_callback(self.make_cb(self.ncb))
        self.ncb += 1

    def add_cms(self):
        PeriodicSensor, Sensor, HCms, Maintainer = self.classes
        c = HCms(Maintainer(name='m'), name='cms')
        if self.twin is not None and len(self.more_cms) % 2 == 0:
            c.add_sensor(self.twin)
        c.add_sensor(self.sensor)
        self.more_cms.append(c)

    def keep(self, data, time, who):
        # a consumer may keep the list of values it was handed (a Cms logging its measurements does): it is that
        # measurement's values and must still be when later measurements have been made
        self.kept.append((data, list(data), time, who))
        if len(self.kept) > 64:
            self.kept.pop(0)

    def check_kept(self):
        for raw, cp, tm, who in self.kept:
            if raw != cp or len(raw) != len(cp):
                self.fail('handed_out_values_changed', f'the list of values handed to {who} for the measurement at '
                          f'{tm!r} was {cp}; at {self.env.now!r} the same list reads {raw}')
                return
        self.sh.count('kept_value_lists_rechecked', len(self.kept))

    def make_cb(self, j):
        def cb(sensor, time, data):
            self.cb_log.append((j, sensor, time, list(data), data))
            if sensor is self.sensor:
                self.mix_log.append(('cb', j))
            if j == 0:
                self.keep(data, time, 'callback 0')
            if j == 0 and self.case.get('cb_touches_queue') and self.case['kind'] == 'periodic':
                # user code that tidies up the sensor's pending events from inside the measurement: there are none at
                # this moment (the next measurement is scheduled when this one is complete), so nothing changes
                if self.case['cb_touches_queue'] == 'cancel':
                    self.env.cancel_matching_events(asset_id=sensor.id)
                else:
                    self.env.pause_matching_events(asset_id=sensor.id)
                    self.env.unpause_matching_events(asset_id=sensor.id)
                self.sh.count('callbacks_that_touched_their_sensors_events')
            lens = sorted({len(v) for v in sensor.data.values()})
            cap = self.case['capacity']
            if cap is not None and lens and lens[-1] > cap and not self.failed:
                self.fail('capacity', f'inside on-sense callback {j} at {time!r} the series hold {lens[-1]} entries, '
                          f'data capacity is {cap}')
            if len(lens) > 1 and not self.failed:
                self.fail('alignment', f'inside on-sense callback {j} at {time!r} the series have lengths '
                          f'{[len(v) for v in sensor.data.values()]} (time series and probe series not aligned)')
        return cb

    def fail(self, name, msg):
        if not self.failed:
            self.failed = True
            self.sh.violation(name, msg, self.case, engine='sensor', witness={'now': self.env.now})

    def probe_values(self):
        out = []
        for k, kind in enumerate(self.case['probe_kinds']):
            out.append(None if kind == 'missing' else copy.deepcopy(self.targets[k].v))
        return out

    def script_action(self, op):
        def act():
            kind = op[0]
            if kind == 'set':
                self.targets[op[1]].v = Box(7) if op[2] == 'BOX' else copy.deepcopy(op[2])
            elif kind == 'mutate':
                v = self.targets[op[1]].v
                if isinstance(v, list):
                    v.append(op[2])
                elif isinstance(v, dict):
                    v[op[2]] = op[2]
                elif isinstance(v, Box):
                    v.x += 1 + op[2]
            elif kind == 'sense':
                if self.sensor is None:
                    return
                self.pending = (self.env.now, self.probe_values())
                self.sensor.sense()
            elif kind == 'add_cb':
                # a consumer subscribes while the run is under way: it is called from the next measurement on
                if self.sensor is not None:
                    self.add_cb()
                    self.sh.count('callbacks_registered_after_measurements' if self.count else
                                  'callbacks_registered_mid_run_before_any_measurement')
            elif kind == 'cms_again':
                # the sensors a Cms already watches are added to it once more while the run is under way (an idempotent
                # set-up routine called again): nothing may change
                if self.sensor is not None and self.cms is not None:
                    self.cms.add_sensor(self.sensor)
                    for c in self.more_cms:
                        c.add_sensor(self.sensor)
                    self.sh.count('sensors_added_again_to_their_cms')
            elif kind == 'add_cms':
                if self.sensor is not None:
                    self.add_cms()
                    self.sh.count('cms_registered_after_measurements' if self.count else
                                  'cms_registered_mid_run_before_any_measurement')
        act.__name__ = 'script_' + op[0]
        return act

    def dispatch(self, ev):
        if action_name(ev.action) == '_periodic_sense' and not ev.cancelled \
                and instrument.action_owner(ev.action) is self.sensor:
            self.pending = (self.env.now, self.probe_values())

    def dispatched(self, ev):
        if self.failed or self.sensor is None:
            return
        now = self.env.now
        case = self.case
        if self.pending is not None:
            t, vals = self.pending
            self.pending = None
            self.count += 1
            if case['kind'] == 'periodic':
                want_t = self.t_next if self.t_next is not None else self.t0 + case['interval']
                if t != want_t:
                    self.fail('sample_time', f'measurement {self.count} at {t!r}, expected {want_t!r} '
                              f'({self.count}-fold addition of {case["interval"]!r})')
                    return
                self.t_next = t + case['interval']
            self.expected.append((t, vals))
            # callbacks: once each, in registration order, (sensor, now, values)
            want_cb = list(range(self.ncb))
            got = [c for c in self.cb_log]
            self.cb_log = []
            # the cms callback is registered through add_on_sense_callback too (after ours)
            if [g[0] for g in got] != want_cb:
                self.fail('callbacks', f'measurement at {t!r}: callbacks ran as {[g[0] for g in got]}, expected {want_cb}')
                return
            for j, sensor, tm, data, raw in got:
                if sensor is not self.sensor or tm != t or data != vals:
                    self.fail('callback_args', f'callback {j} got ({getattr(sensor, "name", sensor)}, {tm!r}, {data}), '
                              f'expected (sensor, {t!r}, {vals})')
                    return
            self.sh.count('callback_calls_checked', len(got))
            # plain callbacks and condition-monitoring systems together: each once, in the order they subscribed
            mix, self.mix_log = self.mix_log, []
            if mix != self.reg_order:
                def show(ts):
                    ids = {}
                    return [f'callback {x[1]}' if x[0] == 'cb' else f'cms #{ids.setdefault(x[1], len(ids) + 1)}' for x in ts]
                self.fail('callbacks', f'measurement at {t!r}: the sensor\'s consumers were called as {show(mix)}; they '
                          f'subscribed as {show(self.reg_order)}')
                return
            self.sh.count('consumer_orders_checked')
            if self.cms is not None and any(x[0] == 'cb' for x in mix) and mix[0][0] == 'cms':
                self.sh.count('measurements_with_a_cms_subscribed_before_a_plain_callback')
            if self.cms is not None:
                got = [g for g in self.cms_log if g[0] is self.sensor and g[3] is self.cms]
                if len(got) != 1 or got[0][0] is not self.sensor or got[0][1] != t or got[0][2] != vals:
                    self.fail('cms', f'measurement at {t!r}: cms (sensor added {case["cms"]}x) received '
                              f'{[(g[1], g[2]) for g in got]}')
                    return
                self.sh.count('cms_deliveries_checked')
            for n, c in enumerate(self.more_cms):
                got = [g for g in self.cms_log if g[0] is self.sensor and g[3] is c]
                if len(got) != 1 or got[0][1] != t or got[0][2] != vals:
                    self.fail('cms', f'measurement at {t!r}: condition-monitoring system #{n + 2} watching the sensor '
                              f'received {[(g[1], g[2]) for g in got]}, expected once ({t!r}, {vals})')
                    return
                self.sh.count('cms_deliveries_checked')
                self.sh.count('further_cms_deliveries_checked')
            self.cms_log = [g for g in self.cms_log if g[0] is not self.sensor]
            if self.sensor.last_sense != vals:
                self.fail('last_sense', f'last_sense {self.sensor.last_sense} after measuring {vals} at {t!r}')
                return
            self.check_kept()
            if self.failed:
                return
            self.keep(self.sensor.last_sense, t, 'a reader of last_sense')
            self.sh.count('measurements_checked')
            cap = case['capacity']
            if cap is not None and self.count > cap:
                self.sh.count('trimmed_measurements')
        elif self.cb_log or [g for g in self.cms_log if g[0] is self.sensor]:
            self.fail('callbacks', f'on-sense callbacks ran at {now!r} without a measurement')
            return
        if self.twin is not None and action_name(ev.action) == '_periodic_sense' \
                and instrument.action_owner(ev.action) is self.twin and not ev.cancelled:
            got = [g for g in self.cms_log if g[0] is self.twin]
            self.cms_log = [g for g in self.cms_log if g[0] is not self.twin]
            want = [self.cms] + [c for n, c in enumerate(self.more_cms) if n % 2 == 0]
            if sorted(id(g[3]) for g in got) != sorted(id(c) for c in want):
                self.fail('cms', f'the measurement of the second, same-named sensor at {now!r} was delivered '
                          f'{len(got)} times, {len(want)} condition-monitoring system(s) watch it (each once)')
                return
            self.sh.count('cms_deliveries_checked', len(want))
        self.check_data()

    def check_data(self):
        case = self.case
        cap = case['capacity']
        keep = len(self.expected) if cap is None else min(len(self.expected), cap)
        exp = self.expected[len(self.expected) - keep:]
        data = self.sensor.data
        for k, p in enumerate(self.probes):
            series = data.get(p)
            want = [vals[k] for t, vals in exp]
            if series != want:
                self.fail('series', f'probe {k} series has {len(series) if series is not None else None} entries '
                          f'{series[-3:] if series else series}, expected the last {keep} of {len(self.expected)}: '
                          f'{want[-3:]}')
                return
            # stored values are copies, not the live mutable object
            tv = self.targets[k].v
            if isinstance(tv, (list, dict, Box)) and any(x is tv for x in series):
                self.fail('copy', f'probe {k}: the stored value is the live object, not a copy')
                return
        if case['kind'] == 'periodic':
            ts = data.get('time')
            want = [t for t, vals in exp]
            if ts != want:
                self.fail('time_series', f'time series has {len(ts) if ts is not None else None} entries {ts[-3:] if ts else ts}, '
                          f'expected the last {keep} of {len(self.expected)}: {want[-3:]}')
                return
        lens = {len(v) for v in data.values()}
        if len(lens) > 1:
            self.fail('alignment', f'series of different lengths: {[len(v) for v in data.values()]}')

    def before_advance(self, env, t):
        if self.failed or self.case['kind'] != 'periodic' or self.sensor is None:
            return
        due = self.t_next if self.t_next is not None else self.t0 + self.case['interval']
        if due <= env.now:
            self.fail('sample_missed', f'measurement {self.count + 1} was due at {due!r}; clock leaves {env.now!r}')

    def execute(self):
        case = self.case
        with instrument.use_bus(self.bus):
            for t, prio, op in case['script']:
                self.env.schedule_event(t, -2, self.script_action(op), prio)
            try:
                for n, d in enumerate(case['horizon']):
                    self.system.simulate(d, print_summary=False)
                    if n == 0 and case.get('late'):
                        # the sensor is mounted between two simulate() calls: it counts from now
                        self.t0 = self.env.now
                        self.make_sensor()
                    elif n == 0 and len(case['horizon']) > 1 and case.get('between') and self.sensor is not None:
                        # consumers subscribing between two simulate() calls
                        for what in case['between']:
                            (self.add_cb if what == 'cb' else self.add_cms)()
                            self.sh.count('consumers_registered_between_runs')
                        if self.cms is not None:
                            self.cms.add_sensor(self.sensor)
                            self.sh.count('sensors_added_again_to_their_cms')
            except Exception as e:
                import traceback
                self.fail('crash', f'{type(e).__name__}: {e} {traceback.format_exc()[-1000:]}')
            if case.get('late') and not self.failed:
                self.sh.count('sensors_mounted_between_runs')
            if not self.failed:
                self.check_kept()
        cap = case['capacity']
        return cap is not None and self.count > cap


class PartRun:
    """OutputPartSensor on a processor in source -> processor -> sink."""

    def __init__(self, sh, case):
        core.load_library()
        from simprocesd.model import System
        from simprocesd.model.factory_floor import Source, PartProcessor, Sink, PartGenerator
        from simprocesd.model.sensors import OutputPartSensor, AttributeProbe, Probe
        instrument.install()
        self.sh, self.case = sh, case
        self.failed = False
        self.bus = instrument.Bus(ties.make_policy(case.get('tie', 'prng'), case.get('tie_seed', 0)))
        self.bus.attach(self)
        self.finished = []       # (time, part, quality, value) at finish, before the sensor's own callback
        with instrument.use_bus(self.bus):
            self.system = System()
            self.env = self.system.env
            src = Source(name='S', part_generator=PartGenerator('p', value=1.0, quality=1.0),
                         cycle_time=case['src_ct'])
            feed = src
            if case.get('batch'):
                from simprocesd.model.factory_floor import PartBatcher
                feed = PartBatcher(name='T', upstream=[src], output_batch_size=case['batch'])
            if case.get('reentrant'):
                # the watched machine is shared by two chained paths (examples/ReentrantFlow.py): every part is finished
                # by it twice, often twice in a row
                from simprocesd.model.factory_floor import Group
                self.proc = PartProcessor(name='P', cycle_time=case['ct'])
                grp = Group('cell', [self.proc])
                from simprocesd.model.factory_floor import PartHandler
                v1 = grp.get_new_group_path('visit1', [feed])
                between = PartHandler(name='M2', upstream=[v1], cycle_time=case.get('between_ct', 0))
                v2 = grp.get_new_group_path('visit2', [between])
                Sink(name='K', upstream=[v2])
            else:
                self.proc = PartProcessor(name='P', upstream=[feed], cycle_time=case['ct'])
                Sink(name='K', upstream=[self.proc])
            self.proc.add_finish_processing_callback(self.on_finish)
            self.probes = [AttributeProbe('quality', None), Probe(lambda part: part.id, None),
                           AttributeProbe('value', None)][:case['nprobes']]
            kw = {}
            if case['capacity'] is not None:
                kw['data_capacity'] = case['capacity']
            self.sensor = OutputPartSensor(self.proc, self.probes, sensing_interval=case['n'], name='ps', **kw)
            self.cb_log = []
            self.sensor.add_on_sense_callback(self.on_sense)
        self.expected = []
        self.k = 0
        self.skipped = 0
        self.measured_idx = []
        self.cb_failed = False
        self.order = []
        self.cb2_on = False

    def fail(self, name, msg):
        if not self.failed:
            self.failed = True
            self.sh.violation(name, msg, self.case, engine='part_sensor', witness={'now': self.env.now})

    def on_sense2(self, s, t, d):
        self.order.append(('late subscriber', t, list(d)))

    def subscribe_late(self):
        # a second consumer subscribes while the run is under way (after measurements have been made, usually)
        self.sensor.add_on_sense_callback(self.on_sense2)
        self.cb2_on = True
        self.sh.count('part_sensor_callbacks_registered_mid_run')

    def on_sense(self, s, t, d):
        self.cb_log.append((s, t, list(d)))
        self.order.append(('first subscriber', t, list(d)))
        self.measured_idx.append(len(self.finished) - 1)
        if self.case.get('cb_fails') and len(self.measured_idx) == self.case['cb_fails'] and not self.cb_failed:
            self.cb_failed = True
            raise HarnessError('the on-sense callback failed')        # user code failing once
        cap = self.case['capacity']
        n = max(len(v) for v in s.data.values())
        if cap is not None and n > cap:
            self.fail('capacity', f'inside the on-sense callback at {t!r} the series hold {n} entries, capacity {cap}')

    def on_finish(self, proc, part):
        if instrument.PROBING:
            return
        q = self.case['qualities']
        part.quality = q[self.k % len(q)]
        self.k += 1
        self.finished.append((self.env.now, part, part.quality, part.id, part.value))

    def dispatched(self, ev):
        if self.failed:
            return
        n = self.case['n']
        if self.cb_failed:
            # after a measurement during which user code failed, which part is measured next is not laid down;
            # what still holds: never more than n finished parts in a row go unmeasured, and the series stay aligned
            last = self.measured_idx[-1] if self.measured_idx else -1
            gaps = [b - a for a, b in zip(self.measured_idx, self.measured_idx[1:])]
            if (gaps and max(gaps) > n + 1) or len(self.finished) - 1 - last > n:
                self.fail('part_measurement', f'after a failed on-sense callback: {len(self.finished)} parts finished, '
                          f'measured part numbers {[i + 1 for i in self.measured_idx]} (sensing interval {n})')
                return
            lens = {len(v) for v in self.sensor.data.values()}
            if len(lens) > 1:
                self.fail('alignment', f'series of different lengths: {[len(v) for v in self.sensor.data.values()]}')
            self.cb_log = []
            self.order = []
            self.sh.count('events_judged_after_a_failed_callback')
            return
        order, self.order = self.order, []
        if self.cb2_on and order:
            want = []
            for who, t, d in order:
                if who == 'first subscriber':
                    want += [(who, t, d), ('late subscriber', t, d)]
            if order != want:
                self.fail('callbacks', f'a second on-sense callback was registered during the run; this event\'s '
                          f'measurements were delivered as {order}, expected {want}')
                return
            self.sh.count('callback_calls_checked', len(order))
            self.sh.count('late_subscriber_calls_checked', len(order) // 2)
        # which finished parts must have been measured so far: 1, n+2, 2n+3, ...
        want = []
        for i, (t, part, q, pid, val) in enumerate(self.finished):
            if i % (n + 1) == 0:
                want.append((t, [q, pid, val][:self.case['nprobes']]))
        new = want[len(self.expected):]
        if len(new) != len(self.cb_log) or any(c[0] is not self.sensor or c[1] != w[0] or c[2] != w[1]
                                              for c, w in zip(self.cb_log, new)):
            self.fail('part_measurement', f'after {len(self.finished)} finished parts (sensing interval {n}) the '
                      f'sensor reported {[(c[1], c[2]) for c in self.cb_log]}, expected {new}')
            return
        self.sh.count('part_measurements_checked', len(new))
        self.cb_log = []
        self.expected = want
        self.skipped = len(self.finished) - len(want)
        cap = self.case['capacity']
        keep = len(want) if cap is None else min(len(want), cap)
        exp = want[len(want) - keep:]
        for k, p in enumerate(self.probes):
            if self.sensor.data.get(p) != [v[k] for t, v in exp]:
                self.fail('part_series', f'probe {k} series {self.sensor.data.get(p)[-3:]}, expected the last {keep} '
                          f'of {len(want)}: {[v[k] for t, v in exp][-3:]}')
                return

    def execute(self):
        case = self.case
        with instrument.use_bus(self.bus):
            try:
                self.system.simulate(0, print_summary=False)     # initialise, so failures can be scheduled
                if case.get('late_cb') is not None:
                    self.env.schedule_event(case['late_cb'], -2, self.subscribe_late, 5)
                for t in case['failures']:
                    self.proc.schedule_failure(t)
                    self.env.schedule_event(t + 0.5, -2, self.proc.restore_functionality, 9)
                import contextlib
                import io
                for _ in range(20):
                    try:
                        with contextlib.redirect_stdout(io.StringIO()):
                            self.system.simulate(case['horizon'] - self.env.now, print_summary=False)
                        if self.env.now >= case['horizon'] or not self.cb_failed:
                            break
                    except HarnessError:
                        self.sh.count('user_code_exceptions_caught_and_continued')
            except Exception as e:
                import traceback
                self.fail('crash', f'{type(e).__name__}: {e} {traceback.format_exc()[-1000:]}')
        self.sh.count('parts_skipped', self.skipped)
        return self.skipped > 0


VALUES = [0, 1, 2.5, 'a', [1, 2], [3], {'k': 1}, None, 7, 'BOX', 'BOX']


def gen_periodic(rng, tie):
    kind = 'periodic' if rng.random() < 0.85 else 'plain'
    interval = rng.choice([0.5, 1, 1, 2, 0.25, 0.1, 0.3, 0.7, 1.1, 2.2, 3])
    nprobes = rng.choice([1, 1, 2, 3, 4])
    samples = rng.choice([3, 5, 10, 20, 50, 200])
    if rng.random() < 0.03:
        samples = rng.choice([800, 1500])        # long histories: the data capacity is reached many times over
    horizon = interval * samples + interval / 2
    hs = [horizon]
    if rng.random() < 0.25:
        a = horizon * rng.choice([0.25, 0.5])
        hs = [a, horizon - a]
    script = []
    for _ in range(rng.choice([0, 2, 5, 10, 20])):
        t = rng.random() * horizon
        if rng.random() < 0.5:
            t = interval * rng.randint(1, samples)        # aimed at a sampling instant (approximately, for decimals)
        k = rng.randrange(nprobes)
        if rng.random() < 0.6:
            op = ['set', k, rng.choice(VALUES)]
        else:
            op = ['mutate', k, rng.randint(0, 9)]
        script.append([t, rng.choice([2, 3, 4.5, 5, 10, 3.5]), op])
    if kind == 'plain':
        for _ in range(rng.randint(2, 15)):
            script.append([rng.random() * horizon, 5, ['sense']])
    if rng.random() < 0.35:
        for _ in range(rng.choice([1, 1, 2, 3])):
            t = rng.random() * horizon
            if rng.random() < 0.4:
                t = interval * rng.randint(1, samples)
            script.append([t, rng.choice([2, 3.5, 5, 10]), [rng.choice(['add_cb', 'add_cb', 'add_cms', 'cms_again'])]])
    script = [s for s in script if s[0] <= sum(hs)]
    script.sort(key=lambda e: e[0])
    touch = None
    if len(script) % 7 == 3:
        touch = 'cancel' if len(script) % 2 else 'pause'          # (no draw from the stream)
    return {'engine': 'sensor', 'cb_touches_queue': touch, 'cms2': rng.random() < 0.3,
            'between': [rng.choice(['cb', 'cms']) for _ in range(rng.choice([0, 0, 1, 2]))], 'kind': kind, 'interval': interval,
            'probe_kinds': [rng.choice(['attr', 'attr', 'func', 'missing']) for _ in range(nprobes)],
            'initial': [rng.choice(VALUES) for _ in range(nprobes)],
            'capacity': rng.choice([None, 1, 2, 3, 4, 6]), 'callbacks': rng.choice([0, 1, 2, 3]),
            'cms': rng.choice([0, 1, 2]), 'horizon': hs, 'script': script, 'tie': tie,
            'tie_seed': rng.randrange(1 << 30), 'late': len(hs) == 2 and rng.random() < 0.5,
            'twin': rng.random() < 0.3, 'cms_first': rng.random() < 0.4}


def gen_part(rng, tie):
    ct = rng.choice([0.5, 1, 1, 2])
    return {'engine': 'part_sensor', 'src_ct': rng.choice([0.5, 1, 1]), 'ct': ct, 'n': rng.choice([0, 0, 1, 2, 3, 5]),
            'nprobes': rng.choice([1, 2, 3]), 'capacity': rng.choice([None, 1, 2, 4]),
            'qualities': [rng.choice([1, 0.5, 0.25, 0.75]) for _ in range(rng.randint(1, 4))],
            'failures': sorted(rng.sample([x / 2 for x in range(2, 80)], rng.choice([0, 0, 1, 3]))),
            'horizon': float(rng.choice([20, 40, 60, 60, 300])), 'tie': tie, 'tie_seed': rng.randrange(1 << 30),
            'batch': rng.choice([None, None, 2, 3, 4]), 'cb_fails': rng.choice([None, None, None, 1, 2, 3, 4]),
            'reentrant': rng.random() < 0.3, 'between_ct': rng.choice([0, 0, 0.5]),
            'late_cb': rng.choice([None, None, 0.25, 3.25, 7.0, 15.5])}


def run_case(sh, case):
    if case['engine'] == 'sensor':
        nt = PeriodicRun(sh, case).execute()
    else:
        nt = PartRun(sh, case).execute()
    sh.case_done(case, nt)


def run(sh):
    n = 2000 if sh.tier == 'quick' else 400000
    pol = ['prng', 'fifo', 'lifo', 'const']
    for i in sh.share(n):
        rng = random.Random(core.stable_int(sh.seed, 'C19', i))
        case = gen_periodic(rng, pol[i % 4]) if i % 4 else gen_part(rng, pol[(i // 4) % 4])
        run_case(sh, case)


def replay(sh, v):
    run_case(sh, v['case'])
