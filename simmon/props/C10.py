"""C10 - waiting resource requests are served: exactly once, in order, only when feasible.

Engine: a real Environment + ResourceManager driven by a script of timed
operations (register / reserve / release / add capacity), several per instant
at priorities above and below the availability check's.  The harness
callbacks log every invocation; the oracle replays the in-order scan rule
from what it sees at the boundary:
  * a callback runs at most once, with (the manager, an equal but not
    identical copy of the request), only if the request fits at that moment;
  * when callback k runs, every earlier-registered still-waiting request
    scanned since the previous callback must NOT fit (else it was skipped at a
    check at which it fitted, or served out of order);
  * when a check pass ends, no waiting request after the last served one fits;
  * when the clock advances (and at the end of the run) no waiting request fits.
"""
import random

from .. import core, instrument, ties
from ..instrument import action_name

SPEC = {
    'level': 'exploration',
    'rule': ('scripts of register / reserve / release / add-capacity operations at random grid times on 1-3 '
             'resources with 1-8 waiting requests, several operations per instant at priorities above and below '
             'the availability check, a third of the scripts split into two runs with operations issued between the runs, callbacks that reserve (making later waiters infeasible mid-pass), release, '
             'or register again; run on the real Environment + ResourceManager under 4 tie-break policies; every '
             'callback invocation and every end of a check pass is judged against the in-order scan rule, every '
             'clock advance against "no feasible request is still waiting"; a case is one script; non-trivial = '
             'two or more waiters were served in one pass, or a waiter was made infeasible by an earlier callback '
             'of the same pass; also: a decimal leg with a three-valued fit (borderline requests judged for self-consistency only) and 1200-2500 requests served by one check'),
    'floors': {'quick': {'callbacks_judged': 3000, 'passes_with_2plus_callbacks': 300,
                         'waiters_made_infeasible_mid_pass': 100, 'clock_advances_checked': 5000},
               'thorough': {'callbacks_judged': 90000, 'passes_with_2plus_callbacks': 9000,
                            'waiters_made_infeasible_mid_pass': 3000, 'clock_advances_checked': 150000}},
    'assumptions': ['amounts on the dyadic grid (exact oracle) or one-decimal (three-valued fit: a margin within 1e-9 of zero is judged for self-consistency only)', 'requests contain non-negative amounts of 1-2 resources'],
    'timeout_s': {'quick': 900, 'thorough': 7200},
}

PRIOS = [2, 5, 8, 10, 11, 11.5, 12, 10.5]      # the check runs at OTHER_HIGH_PRIORITY = 11


class Waiter:
    def __init__(self, run, reg, request, behaviour):
        self.run, self.reg, self.request, self.behaviour = run, reg, request, behaviour
        self.calls = 0
        self.fit_at_pass_start = None
        self.eq_key = 'twin' if behaviour.endswith('_twin') else None
        if self.eq_key:
            self.behaviour = behaviour[:-5]

    def __call__(self, rm, req):
        self.run.on_callback(self, rm, req)

    # some callbacks are callable objects that compare equal to one another (by a name of theirs): two registrations
    # with equal requests and equal callbacks are still two registrations
    def __eq__(self, other):
        if isinstance(other, Waiter) and self.eq_key is not None:
            return self.eq_key == other.eq_key
        return self is other

    def __ne__(self, other):
        return not self.__eq__(other)

    def __hash__(self):
        return hash(self.eq_key) if self.eq_key is not None else id(self)


C09_OWNED = {'pool_usage_ne_holdings', 'reserve_vs_fit', 'over_capacity', 'crash'}


class Run:
    def __init__(self, sh, case, owner='C10'):
        self.owner = owner
        from simprocesd.model import Environment, ResourceManager
        instrument.install()
        self.sh = sh
        self.case = case
        self.rm = ResourceManager()
        for r, c in case['resources'].items():
            self.rm.add_resources(r, c)
        self.env = Environment(resource_manager=self.rm)
        self.rm.initialize(self.env)
        self.bus = instrument.Bus(ties.make_policy(case.get('tie', 'prng'), case.get('tie_seed', 0)))
        self.bus.attach(self)
        self.waiting = []        # Waiter objects in registration order (not yet called)
        self.decimal = bool(case.get('decimal'))
        self.held = []           # reservations made by the script / callbacks
        self.spent = []          # holder objects that were given back completely
        self.nreg = 0
        self.failed = False
        self.in_pass = False
        self.pass_calls = 0
        self.scan_pos = 0        # index in self.waiting after the last served waiter of this pass
        self.multi_pass = 0
        self.infeasible_mid = 0
        self.reduced_below = set()

    def fail(self, name, msg):
        if not self.failed:
            self.failed = True
            mine = (name in C09_OWNED) if self.owner == 'C09' else (name not in C09_OWNED or name == 'crash')
            if mine:
                self.sh.violation(name, msg, self.case, engine='waiters', witness={'now': self.env.now})
            else:
                self.sh.count('foreign_discrepancy_' + name)

    def checked_reserve(self, request, offered=False):
        """reserve_resources must succeed exactly when the request fits at this moment (C09); a request the
        manager has just offered to its callback (nothing changed since) must be reservable."""
        fits = self.fits(request)
        if fits is None:
            fits = True if offered else None
            self.sh.count('borderline_decimal_reservations')
        neg = any(a < 0 for a in request.values())
        r = self.rm.reserve_resources(request)
        self.sh.count('reservations_judged')
        if not neg and fits is not None and (r is not None) != fits:
            self.fail('reserve_vs_fit', f'reserve_resources({request}) at {self.env.now!r} returned '
                      f'{"a reservation" if r is not None else None} although the request '
                      f'{"fits" if fits else "does not fit"} (usage/capacity '
                      f'{[(k, self.rm.get_resource_usage(k), self.rm.get_resource_capacity(k)) for k in request]})')
        return r

    def check_pools(self, where):
        """usage == sum of the outstanding reservations; usage <= capacity unless capacity was reduced (C09)."""
        for r in self.case['resources']:
            u = self.rm.get_resource_usage(r)
            held = sum(x.reserved_resources.get(r, 0) for x in self.held)
            if u != held and not (self.decimal and abs(u - held) <= 1e-9):
                self.fail('pool_usage_ne_holdings', f'{where}: usage({r}) = {u!r} but outstanding reservations hold '
                          f'{held!r}')
                return
            c = self.rm.get_resource_capacity(r)
            if u > c and r not in self.reduced_below:
                self.fail('over_capacity', f'{where}: usage({r}) = {u!r} exceeds capacity {c!r} that was never '
                          f'reduced below usage')
                return
            if u <= c:
                self.reduced_below.discard(r)
        self.sh.count('pool_checks')

    def fits(self, request):
        """True / False; with decimal amounts None when a margin is within rounding of zero (which way an
        implementation rounds there is its own business - only its self-consistency is judged)."""
        border = False
        for r, a in request.items():
            if a == 0:
                continue
            margin = self.rm.get_resource_capacity(r) - self.rm.get_resource_usage(r) - a
            if self.decimal and abs(margin) <= 1e-9:
                border = True
            elif margin < 0:
                return False
        return None if border else True

    # -- script operations -------------------------------------------------------------
    def op_action(self, op):
        def act():
            self.do(op)
        act.__name__ = 'script_' + op[0]
        return act

    def do(self, op):
        kind = op[0]
        if kind == 'register':
            self.register(dict(op[1]), op[2])
        elif kind == 'reserve':
            r = self.checked_reserve(dict(op[1]))
            if r is not None:
                self.held.append(r)
        elif kind == 'release':
            if self.held:
                r = self.held.pop(op[1] % len(self.held))
                r.release()
                self.spent.append(r)
        elif kind == 'reuse':
            # a holder object that was given back completely is used again: a fresh reservation is merged into it
            # (it is the holder that counts from now on; the fresh object is left empty)
            if self.held and self.spent:
                fresh = self.held.pop(op[1] % len(self.held))
                old = self.spent.pop(op[1] % len(self.spent))
                old.merge(fresh)
                self.held.append(old)
                self.sh.count('released_holders_refilled_by_merge')
        elif kind == 'add':
            try:
                self.rm.add_resources(op[1], op[2])
                if op[2] < 0 and self.rm.get_resource_capacity(op[1]) < self.rm.get_resource_usage(op[1]):
                    self.reduced_below.add(op[1])
            except ValueError:
                pass

    def register(self, request, behaviour):
        self.nreg += 1
        w = Waiter(self, self.nreg, request, behaviour)
        self.waiting.append(w)
        self.sh.count('registrations')
        self.rm.reserve_resources_with_callback(request, w)

    # -- the oracle ------------------------------------------------------------------------
    def on_callback(self, w, rm, req):
        sh = self.sh
        w.calls += 1
        if w.calls > 1:
            self.fail('called_twice', f'callback of registration {w.reg} {w.request} invoked {w.calls} times')
            return
        if not self.in_pass:
            self.fail('called_outside_check', f'callback of registration {w.reg} invoked outside an availability check')
            return
        if rm is not self.rm:
            self.fail('callback_args', f'registration {w.reg}: first argument is not the resource manager')
            return
        if req != w.request or req is w.request:
            self.fail('callback_args', f'registration {w.reg}: request argument {req} (identical object: '
                      f'{req is w.request}) for request {w.request}')
            return
        if self.fits(w.request) is False:
            self.fail('called_when_infeasible', f'registration {w.reg} {w.request} called back at {self.env.now!r} '
                      f'although it does not fit')
            return
        if not any(x is w for x in self.waiting):
            self.fail('called_twice', f'registration {w.reg} called back although it is no longer waiting')
            return
        k = next(i for i, x in enumerate(self.waiting) if x is w)
        if k < self.scan_pos:
            self.fail('order', f'registration {w.reg} served after a later-registered one in the same pass')
            return
        for j in range(self.scan_pos, k):
            other = self.waiting[j]
            if self.fits(other.request):
                self.fail('skipped_feasible_waiter', f'registration {other.reg} {other.request} fits at '
                          f'{self.env.now!r} but registration {w.reg} was served first / it was skipped')
                return
            if other.fit_at_pass_start:
                self.infeasible_mid += 1
                sh.count('waiters_made_infeasible_mid_pass')
                other.fit_at_pass_start = False
        self.waiting.pop(k)
        self.scan_pos = k
        self.pass_calls += 1
        sh.count('callbacks_judged')
        # behaviour of the callback itself
        b = w.behaviour
        if b in ('reserve_offered', 'other_then_reserve_offered'):
            # the documented pattern: reserve the very dictionary the manager hands to the callback -
            # possibly after another pool operation made from inside the callback
            if b == 'other_then_reserve_offered':
                first = next(iter(req), None)
                if first is not None:
                    if self.nreg % 2:
                        x = self.checked_reserve({first: 1})
                        if x is not None:
                            self.held.append(x)
                    else:
                        try:
                            self.rm.add_resources(first, -1)
                            if self.rm.get_resource_capacity(first) < self.rm.get_resource_usage(first):
                                self.reduced_below.add(first)
                        except ValueError:
                            pass
            r = self.checked_reserve(req, offered=(b == 'reserve_offered'))
            if r is not None:
                self.held.append(r)
        elif b == 'reserve' or b == 'reserve_release_later':
            r = self.checked_reserve(dict(w.request), offered=True)
            if r is None:
                self.fail('called_when_infeasible', f'registration {w.reg}: reserve inside the callback failed')
                return
            self.held.append(r)
            if b == 'reserve_release_later':
                self.env.schedule_event(self.env.now + 0.5, -2, self.op_action(('release', len(self.held) - 1)), 5)
        elif b == 'release_other':
            if self.held:
                self.held.pop(0).release()
        elif b == 'register_again':
            self.register(dict(w.request), 'reserve')

    def dispatch(self, ev):
        if action_name(ev.action) == '_check_pending_requests' and not ev.cancelled:
            self.in_pass = True
            self.pass_calls = 0
            self.scan_pos = 0
            for w in self.waiting:
                w.fit_at_pass_start = self.fits(w.request)
            self.sh.count('check_passes')

    def dispatched(self, ev):
        if not self.failed:
            self.check_pools(f'after event at {self.env.now!r}')
        if self.in_pass and action_name(ev.action) == '_check_pending_requests':
            self.in_pass = False
            if self.failed:
                return
            for w in self.waiting[self.scan_pos:]:
                if self.fits(w.request) and getattr(w, 'fit_at_pass_start', None) is not None:
                    self.fail('skipped_feasible_waiter', f'check pass at {self.env.now!r} ended although '
                              f'registration {w.reg} {w.request} fits')
                    return
                if getattr(w, 'fit_at_pass_start', False):
                    self.infeasible_mid += 1
                    self.sh.count('waiters_made_infeasible_mid_pass')
            if self.pass_calls >= 2:
                self.multi_pass += 1
                self.sh.count('passes_with_2plus_callbacks')
            # the real list must hold exactly the requests still waiting
            real = len(self.rm._waiting_requests)
            if real != len(self.waiting):
                self.fail('waiting_list', f'{real} requests in the manager\'s waiting list, {len(self.waiting)} '
                          f'registered and not yet called back')

    def before_advance(self, env, t):
        self.check_leftovers(f'clock about to advance from {env.now!r} to {t!r}')

    def check_leftovers(self, where):
        if self.failed:
            return
        self.sh.count('clock_advances_checked')
        for w in self.waiting:
            f = self.fits(w.request)
            if f is None:
                # borderline: the manager's own reserve_resources is the judge (a refused reservation changes nothing)
                probe = self.rm.reserve_resources(dict(w.request))
                self.sh.count('borderline_waiters_probed')
                if probe is not None:
                    self.fail('feasible_request_left_waiting', f'{where}: registration {w.reg} {w.request} is still '
                              f'waiting although reserve_resources grants the same request at this moment (usage/capacity: '
                              f'{[(r, self.rm.get_resource_usage(r) - w.request[r], self.rm.get_resource_capacity(r)) for r in w.request]})')
                    return
                continue
            if f:
                self.fail('feasible_request_left_waiting', f'{where}: registration {w.reg} {w.request} fits '
                          f'(usage/capacity: {[(r, self.rm.get_resource_usage(r), self.rm.get_resource_capacity(r)) for r in w.request]}) '
                          f'and is still waiting')
                return

    def execute(self):
        with instrument.use_bus(self.bus):
            for t, prio, op in self.case['script']:
                self.env.schedule_event(t, -2, self.op_action(tuple(op)), prio)
            try:
                segs = self.case.get('segments') or [self.case['horizon']]
                for k, d in enumerate(segs):
                    self.env.run(d)
                    # operations issued by ordinary code BETWEEN two runs (not from an event): the availability
                    # check they schedule is pending when the next run starts
                    if k + 1 < len(segs):
                        self.check_leftovers(f'end of run {k + 1}')
                        for op in self.case.get('between', []):
                            with instrument.external(self.bus):
                                self.do(tuple(op))
                            self.sh.count('operations_between_runs')
            except Exception as e:
                import traceback
                self.fail('crash', f'{type(e).__name__}: {e} {traceback.format_exc()[-800:]}')
            self.check_leftovers('end of run')
        return {'multi_pass': self.multi_pass, 'infeasible_mid': self.infeasible_mid}


def gen_case(rng, tie, decimal=False):
    nres = rng.choice([1, 1, 2, 2, 3])
    resources = {f'r{k}': rng.choice([0, 1, 1, 2, 3]) for k in range(nres)}
    amounts = [1, 1, 1, 2, 0.5, 3, 0]
    adds = [1, 1, 2, -1, -1, 0.5, 3]
    if decimal:
        # one-decimal capacities and amounts: capacity - usage and usage + amount round differently
        resources = {f'r{k}': rng.choice([1.0, 1.7, 2.0, 0.9, 1.3, 0.3, 1.1]) for k in range(nres)}
        amounts = [0.1, 0.2, 0.2, 0.3, 0.6, 0.8, 1.1, 0.7, 0.4, 0]
        adds = [0.1, 0.3, -0.1, -0.2, 0.7, 1.0, -0.6]
    names = sorted(resources)
    horizon = 12.0
    script = []

    def req():
        k = 1 if len(names) == 1 or rng.random() < 0.6 else 2
        return [[r, rng.choice(amounts)] for r in rng.sample(names, k)]
    n = rng.randint(6, 40)
    t = 0.0
    for _ in range(n):
        if rng.random() < 0.55:
            t = rng.randrange(0, int(horizon * 4)) / 4.0
        prio = rng.choice(PRIOS)
        x = rng.random()

        if x < 0.45:
            op = ['register', req(), rng.choice(['none', 'reserve', 'reserve', 'reserve_release_later',
                                                 'release_other', 'register_again', 'reserve_offered',
                                                 'other_then_reserve_offered', 'reserve_twin', 'none_twin',
                                                 'reserve_release_later_twin'])]
            if op[2].endswith('_twin') and rng.random() < 0.6 and script:
                # ... and an equal request registered with an equal callback a moment earlier or at the same instant
                script.append([t, prio, ['register', [list(x) for x in op[1]], op[2]]])
        elif x < 0.6:
            op = ['reserve', req()]
        elif x < 0.8:
            op = ['release', rng.randrange(4)]
            if (len(script) * 7 + op[1]) % 5 == 0:
                # (no draw from the stream: the other cases stay what they were)
                script.append([t, prio, ['reuse', op[1]]])
        else:
            op = ['add', rng.choice(names), rng.choice(adds)]
        script.append([t, prio, op])
    case = {'engine': 'waiters', 'resources': resources, 'script': script, 'horizon': horizon, 'tie': tie,
            'tie_seed': rng.randrange(1 << 30)}
    if decimal:
        case['decimal'] = True
    if rng.random() < 0.35:
        a = rng.randrange(1, int(horizon * 4)) / 4.0
        case['segments'] = [a, horizon - a]
        between = []
        for _ in range(rng.randint(1, 3)):
            x = rng.random()
            if x < 0.4:
                between.append(['release', rng.randrange(4)])
            elif x < 0.75:
                between.append(['add', rng.choice(names), rng.choice([1, 2, 3])])
            else:
                between.append(['register', req(), rng.choice(['none', 'reserve'])])
        case['between'] = between
    return case


def run_case(sh, case, owner='C10'):
    r = Run(sh, case, owner)
    f = r.execute()
    sh.case_done(case, f['multi_pass'] > 0 or f['infeasible_mid'] > 0)


def run(sh):
    n = 2000 if sh.tier == 'quick' else 600000
    pol = ['prng', 'fifo', 'lifo', 'const']
    for i in sh.share(n):
        rng = random.Random(core.stable_int(sh.seed, 'C10', i))
        run_case(sh, gen_case(rng, pol[i % 4]))
    for i in sh.share(n // 2):
        rng = random.Random(core.stable_int(sh.seed, 'C10dec', i))
        run_case(sh, gen_case(rng, pol[i % 4], decimal=True))
        sh.count('decimal_cases')
    # aimed: a holder of two pools gives both back while one of them stays over-committed after a capacity cut (another
    # holder still has more of it than the pool now has); a request waiting for the OTHER pool fits at once
    for i in sh.share(40 if sh.tier == 'quick' else 2000):
        rng = random.Random(core.stable_int(sh.seed, 'C10over', i))
        a, b, c0 = rng.choice([2, 3]), rng.choice([1, 2]), rng.choice([1, 2])
        both = [['r0', c0], ['r1', b]]
        if rng.random() < 0.3:
            both.reverse()
        t = [rng.randrange(1, 8) / 4.0 for _ in range(4)]
        ts = [0.0, t[0], t[0] + t[1], t[0] + t[1] + t[2], t[0] + t[1] + t[2] + t[3]]
        script = [[0.0, 9, ['reserve', [['r1', a]]]],
                  [ts[1], rng.choice(PRIOS), ['reserve', both]],
                  [ts[2], rng.choice(PRIOS), ['add', 'r1', -(b + 1)]],
                  [ts[2] if rng.random() < 0.3 else ts[3], rng.choice(PRIOS),
                   ['register', [['r0', rng.choice([1, c0])]], rng.choice(['reserve', 'none', 'reserve_release_later'])]],
                  [ts[4], rng.choice(PRIOS), ['release', 1]]]
        script.sort(key=lambda e: e[0])
        case = {'engine': 'waiters', 'resources': {'r0': c0, 'r1': a + b}, 'script': script, 'horizon': ts[4] + 3.0,
                'tie': pol[i % 4], 'tie_seed': i, 'aimed': 'overcommitted_pool'}
        run_case(sh, case)
        sh.count('overcommitted_pool_cases')
    # scale: very many requests becoming feasible at one availability check
    for i in sh.share(4 if sh.tier == 'quick' else 64):
        rng = random.Random(core.stable_int(sh.seed, 'C10mass', i))
        nw = rng.choice([1200, 1500, 2500])
        script = [[0.0, 5, ['register', [['r0', 1]], rng.choice(['reserve', 'reserve', 'none', 'reserve_release_later'])]]
                  for _ in range(nw)]
        script.append([rng.choice([1.0, 2.5]), 5, ['add', 'r0', nw + rng.choice([0, 5, -3])]])
        case = {'engine': 'waiters', 'resources': {'r0': 0}, 'script': script, 'horizon': 6.0, 'tie': pol[i % 4],
                'tie_seed': i, 'mass': nw}
        run_case(sh, case)
        sh.count('mass_waiter_cases')
    # history length: one manager that has registered well over ten thousand requests in its life (most served at
    # once on a free pool); two requests registered far apart then become feasible at the same check
    for i in sh.share(1 if sh.tier == 'quick' else 8):
        rng = random.Random(core.stable_int(sh.seed, 'C10hist', i))
        script = [[0.0, 9, ['reserve', [['r0', 1]]]]]                       # r0 is taken
        t = 0.25
        first = rng.choice([2500, 3100, 4999])
        for k in range(first):
            script.append([t, 5, ['register', [['r1', 1]], 'none']])
            if k % 100 == 99:
                t += 1.0
        script.append([t, 5, ['register', [['r0', 1]], 'reserve']])          # the old request for r0
        t += 1.0
        for k in range(rng.choice([7100, 7600, 9000])):
            script.append([t, 5, ['register', [['r1', 1]], 'none']])
            if k % 100 == 99:
                t += 1.0
        script.append([t, 5, ['register', [['r0', 1]], 'reserve']])          # the young request for r0
        script.append([t + 1.0, 5, ['add', 'r0', 2]])                        # both fit now
        case = {'engine': 'waiters', 'resources': {'r0': 1, 'r1': 300}, 'script': script, 'horizon': t + 3.0,
                'tie': pol[i % 4], 'tie_seed': i, 'history': len(script)}
        run_case(sh, case)
        sh.count('long_history_cases')


def replay(sh, v):
    run_case(sh, v['case'])
