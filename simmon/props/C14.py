"""C14 - reproducibility: same seed, same results; runs can be split and parallelised.

Differential runs, compared after normalising asset ids (each id is taken
relative to the first asset created for that system; the creation sequence of
one model is always the same, only the offset of the global counter differs):
  (a) one model, one seed, run twice with the library's own random tie-breaks,
      the second time after allocating throw-away parts (id offset);
  (b) one model under the keyed tie-break policy, unsplit vs. split into 2-4
      consecutive simulate calls;
  (c) System.simulate_multiple_times with max_processes in {0, 1, 2, 4, None}:
      list in index order, every index equal to the in-process result.
"""
import json
import sys
import os
import random
import re

from .. import build as build_mod
from .. import core, instrument, modelgen, ties

SPEC = {
    'level': 'exploration',
    'rule': ('generated lines in which tie-breaks decide routing (merges, fan-out, shared groups, scarce pools, '
             'fault scripts); (a) each model is run twice with one seed (second run after shifting the global '
             'asset-id counter by 1-500 throw-away parts) and once with another seed; (b) each model is run unsplit '
             'and split at 1-3 points under keyed tie-breaks; (c) System.simulate_multiple_times(simulation, 4-8, '
             'max_processes) for max_processes in {0, 1, 2, 4, None}; compared: all recorded data, device counters, '
             'asset values and histories, routing histories of collected parts, after id normalisation; a case is '
             'one model; non-trivial = the outcome differs under another seed (tie-breaks matter), so that equality '
             'is not vacuous; (f) merge points wired by one set_upstream() call in mid-run at 16 consecutive id offsets; splits exactly at user operations below the end marker\'s priority; a second study in worker processes after a process-wide parameter changed; also: a plain-library model with a user machine type, work orders still in progress at the end of the run and long histories'),
    'floors': {'quick': {'same_seed_pairs_equal': 45, 'models_where_other_seed_differs': 20,
                         'split_runs_equal': 30, 'parallel_results_compared': 60},
               'thorough': {'same_seed_pairs_equal': 1500, 'models_where_other_seed_differs': 500,
                            'split_runs_equal': 1500, 'parallel_results_compared': 600}},
    'assumptions': ['only the listed max_processes values are sampled',
                    'a model creates its assets in the same order in every run'],
    'timeout_s': {'quick': 900, 'thorough': 7200},
}


class Ticker:
    """A self-rescheduling event that belongs to no asset (asset id -1, like the library's own housekeeping
    events): it must survive the end of one simulate() call and go on in the next."""

    def __init__(self, env, period):
        self.env, self.period = env, period
        self.__name__ = 'ticker'

    def __call__(self):
        self.env.add_datapoint('tick', 'harness', (self.env.now,))
        self.env.schedule_event(self.env.now + self.period, -1, self, 4.5)


class TickerStart:
    def __init__(self, ticker):
        self.ticker = ticker
        self.__name__ = 'ticker_start'

    def __call__(self):
        self.ticker()


def normaliser(base):
    def norm(x):
        return x - base if isinstance(x, int) and not isinstance(x, bool) else x
    return norm


def digest(model, base):
    """Normalised, JSON-able summary of everything a user can read after the run."""
    sysm = model.system
    norm = normaliser(base)
    name_re = re.compile(r'^(Batch|Part|[A-Za-z]+)_(\d+)$')

    def nname(n):
        # default names are <ClassName>_<asset id>: the id part is relative to this model's first asset
        m = name_re.match(n) if isinstance(n, str) else None
        if m and (m.group(1) in ('Batch', 'Part') or default_names):
            return f'{m.group(1)}_{int(m.group(2)) - base}'
        return n
    default_names = bool(model.spec.get('default_names'))
    data = {}
    for label, table in sysm.simulation_data.items():
        out = {}
        for sub, recs in table.items():
            rows = []
            for r in recs:
                r = list(r) if isinstance(r, (tuple, list)) else [r]
                if label in ('received_part', 'produced_part', 'supplied_new_part', 'device_failure') and len(r) > 1:
                    r[1] = norm(r[1]) if r[1] is not None else None
                rows.append([repr(x) if not isinstance(x, (int, float, str, type(None), bool)) else nname(x)
                             for x in r])
            out[nname(sub)] = rows
        data[label] = out
    devs = {}
    for did, dev in model.devs.items():
        d = {'value': dev.value, 'history': [[re.sub(r'target:(\w+)', lambda mm: 'target:' + str(nname(mm.group(1))),
                                                      h[0]) if isinstance(h[0], str) else h[0], h[1], h[2], h[3]]
                                             for h in dev.value_history]}
        for attr in ('produced_parts', 'received_parts_count', 'uptime', 'utilization_time',
                     'value_of_received_parts', 'cost_of_produced_parts', 'available_capacity'):
            if hasattr(dev, attr):
                try:
                    d[attr] = getattr(dev, attr)
                except Exception as e:      # uptime on an asset without env etc.
                    d[attr] = repr(e)
        if hasattr(dev, 'level'):
            d['level'] = dev.level()
        if hasattr(dev, 'collected_parts'):
            d['collected'] = [[nname(p.name), norm(p.id), [nname(x.name) for x in p.routing_history]]
                              for p in dev.collected_parts]
        if hasattr(dev, 'last_sense') and isinstance(getattr(dev, 'data', None), dict):
            d['sensor'] = [[k if isinstance(k, str) else 'probe', list(v)] for k, v in dev.data.items()]
        if hasattr(dev, '_part'):
            d['holding'] = [nname(p.name) if p is not None else None for p in (dev._part, dev._output)]
        devs[did] = d
    rm = model.world.rm
    pools = {r: [rm.get_resource_usage(r), rm.get_resource_capacity(r)] for r in sorted(model.spec.get('resources', {}))}
    return json.dumps({'data': data, 'devs': devs, 'pools': pools, 'now': sysm.env.now,
                       'pending': len(sysm.env._events)}, sort_keys=True, default=repr)


def run_model(spec, seed, segments, tie, offset=0, system=None, traced=()):
    """Build and run; returns (digest, events)."""
    from simprocesd.model.factory_floor import Part
    from simprocesd.model.factory_floor.asset import Asset
    instrument.install()
    for _ in range(offset):
        Part()                      # shifts the global id counter
    base = Asset._id_counter
    if tie == 'native':
        policy = None
    else:
        policy = ties.make_policy(tie, seed, id_norm=lambda a: a - base if a > 0 else a)
    bus = instrument.Bus(policy)
    random.seed(seed)
    with instrument.use_bus(bus):
        m = build_mod.build(dict(spec, tie=tie, seed=seed), bus=None, system=system)
        env = m.system.env
        # started from inside an event of the run (asset id -2), so that it is born while the simulation runs
        tick = Ticker(env, 1.25)
        env.schedule_event(0.625, -2, TickerStart(tick), 4.5)
        for k_, d in enumerate(segments):
            if k_ in traced:
                from ..engine_evq import scratch_home
                with scratch_home():
                    m.system.simulate(d, print_summary=False, trace=True)
            else:
                m.system.simulate(d, print_summary=False)
    return digest(m, base), bus.dispatch_serial, m


class RunawayRun(Exception):
    pass


class EndGuard:
    """Bus monitor: a run that executes events due after its own end is stopped (it might never end)."""

    def __init__(self, env, end):
        self.env, self.end = env, end

    def dispatch(self, ev):
        if ev.time > self.end and not instrument.PROBING:
            raise RunawayRun(f'an event due at {ev.time!r} is being executed by a run that ends at {self.end!r}')


class Snapshot:
    """Event action: deep-copies the whole model from inside the running simulation (a periodic checkpoint)."""

    def __init__(self, model, take):
        self.model, self.take = model, take
        self.copy = None
        self.state = None
        self.__name__ = 'snapshot'

    def __call__(self):
        if not self.take or instrument.PROBING:
            return
        import copy
        from simprocesd.model.factory_floor.asset import Asset
        self.state = (random.getstate(), Asset._id_counter)
        with instrument.probing():
            memo = {}
            copy.deepcopy(self.model.system, memo)
            self.copy = copy.deepcopy(self.model, memo)

    def __deepcopy__(self, memo):
        return Snapshot(None, False)


def run_model_with_snapshot(spec, seed, cut, total, take):
    """One uninterrupted simulate(total) with a checkpoint event at `cut` (a no-op when take is False: the reference
    run draws the same tie-break weights).  -> (digest original, digest of the copy continued afterwards or None)"""
    from simprocesd.model.factory_floor.asset import Asset
    instrument.install()
    base = Asset._id_counter
    bus = instrument.Bus(None)
    random.seed(seed)
    with instrument.use_bus(bus):
        m = build_mod.build(dict(spec, tie='native', seed=seed), bus=None)
        env = m.system.env
        tick = Ticker(env, 1.25)
        env.schedule_event(0.625, -2, TickerStart(tick), 4.5)
        snap = Snapshot(m, take)
        env.schedule_event(cut, -2, snap, 6.5)
        bus.attach(EndGuard(env, total))
        m.system.simulate(total, print_summary=False)
        d_orig = digest(m, base)
        d_copy = None
        if take and snap.copy is not None:
            random.setstate(snap.state[0])
            Asset._id_counter = snap.state[1]
            with instrument.probing():
                # the copy is in the middle of its run: its own end marker is among its events, stepping it to the
                # end draws exactly the tie-break weights the original drew
                cenv = snap.copy.system.env
                while cenv._events and not cenv._terminated:
                    cenv.step()
                d_copy = digest(snap.copy, base)
    return d_orig, d_copy


def run_model_with_copy(spec, seed, cut, total):
    """As run_model(spec, seed, [cut, total - cut], 'native'), but after the first run the whole model is deep-copied
    and the COPY is continued first (through its Environment, with the instrumentation silent); the process-wide
    random stream and id counter are then put back and the original is continued.  -> (digest original, digest copy)"""
    import copy
    from simprocesd.model.factory_floor.asset import Asset
    instrument.install()
    base = Asset._id_counter
    bus = instrument.Bus(None)
    random.seed(seed)
    with instrument.use_bus(bus):
        m = build_mod.build(dict(spec, tie='native', seed=seed), bus=None)
        env = m.system.env
        tick = Ticker(env, 1.25)
        env.schedule_event(0.625, -2, TickerStart(tick), 4.5)
        m.system.simulate(cut, print_summary=False)
        st, idc = random.getstate(), Asset._id_counter
        with instrument.probing():
            # the System itself is what a user copies: it is traversed first, the harness's wrapper afterwards
            memo = {}
            copy.deepcopy(m.system, memo)
            mc = copy.deepcopy(m, memo)
            mc.system.env.run(total - cut)
            d_copy = digest(mc, base)
        random.setstate(st)
        Asset._id_counter = idc
        m.system.simulate(total - cut, print_summary=False)
    return digest(m, base), d_copy


def first_diff(a, b):
    if a == b:
        return None
    i = next((k for k in range(min(len(a), len(b))) if a[k] != b[k]), min(len(a), len(b)))
    return f'...{a[max(0, i - 120):i + 120]} <<>> ...{b[max(0, i - 120):i + 120]}'


# -- (c) the simulation function must be a picklable module-level function --------------------------
def parallel_simulation(system, index, spec_json, seed):
    spec = json.loads(spec_json)
    instrument.install()
    from simprocesd.model.factory_floor.asset import Asset
    base = Asset._id_counter
    random.seed(seed + index)
    m = build_mod.build(dict(spec, seed=seed + index, tie='native'), bus=None, system=system)
    system.simulate(spec['horizon'][0], print_summary=False)
    system.h_index = index
    system.h_digest = digest(m, base)
    # The system travels back to the caller by pickling.  Detach the harness log from the objects that are
    # pickled first, so that the object graph is traversed the way a user's plain model is (device -> env ->
    # pending events -> scheduler -> registry keyed by that device), not through the harness's own references.
    m.log.env = None
    m.log.bus = None


STUDY = {'ct': 1.0}       # a process-wide parameter of the user's study, changed between two calls


def study_simulation(system, index, seed):
    from simprocesd.model.factory_floor import Source, PartProcessor, Sink
    random.seed(seed + index)
    src = Source(name='S', cycle_time=0.5)
    mc = PartProcessor(name='M', upstream=[src], cycle_time=STUDY['ct'])
    snk = Sink(name='K', upstream=[mc])
    system.simulate(20, print_summary=False)
    system.h_study = (STUDY['ct'], snk.received_parts_count)


def shift_action(scheduler, obj, time, state):
    if state:
        obj.restore_functionality()
    else:
        obj.shutdown()


def plain_digest(system):
    base = getattr(system, 'h_base', 0)
    data = {}
    for label, table in system.simulation_data.items():
        out = {}
        for k, v in table.items():
            rows = []
            for r in v:
                r = list(r)
                if label in ('received_part', 'produced_part', 'supplied_new_part', 'device_failure') \
                        and len(r) > 1 and isinstance(r[1], int):
                    r[1] -= base          # ids are numbered from wherever the process-wide counter stood
                rows.append([repr(x) if not isinstance(x, (int, float, str, type(None), bool)) else x for x in r])
            out[str(k)] = rows
        data[label] = out
    return json.dumps({'data': data, 'now': system.env.now}, sort_keys=True, default=repr)


def _plain_machine():
    from simprocesd.model.factory_floor import PartProcessor

    class PlainMachine(PartProcessor):
        """A user's machine type (module level, so that it can be pickled) whose work orders take time."""
        wo_duration = 0

        def get_work_order_duration(self, tag):
            return self.wo_duration
    return PlainMachine


PlainMachine = None


def plain_machine_class():
    global PlainMachine
    if PlainMachine is None:
        PlainMachine = _plain_machine()
        PlainMachine.__qualname__ = 'PlainMachine'
    return PlainMachine


class OrderAction:
    """A user's event action (module level, so that pending events can be pickled)."""

    def __init__(self, maintainer, target, tag):
        self.maintainer, self.target, self.tag = maintainer, target, tag
        self.__name__ = 'request_order'

    def __call__(self):
        self.maintainer.create_work_order(self.target, self.tag)


def plain_simulation(system, index, params, seed):
    """A model built only from the library's own classes, the way a user writes one: the returned System is
    pickled with nothing of the harness inside it."""
    from simprocesd.model.factory_floor import (Source, PartProcessor, Buffer, Sink, ActionScheduler, Maintainer,
                                                PartGenerator)
    from simprocesd.model.sensors import PeriodicSensor, AttributeProbe
    from simprocesd.model.factory_floor.asset import Asset
    system.h_base = Asset._id_counter
    random.seed(seed + index)
    rm = system.resource_manager
    rm.add_resources('op', params['operators'])
    src = Source(name='S', part_generator=PartGenerator('p', value=1.0), cycle_time=params['src_ct'])
    m1 = PartProcessor(name='M1', upstream=[src], cycle_time=params['ct1'], resources_for_processing={'op': 1})
    m2 = PartProcessor(name='M2', upstream=[src], cycle_time=params['ct2'], resources_for_processing={'op': 1})
    buf = Buffer(name='B', upstream=[m1, m2], capacity=params['cap'])
    m3 = plain_machine_class()(name='M3', upstream=[buf], cycle_time=params['ct3'])
    m3.wo_duration = params.get('wo_duration', 0)
    Sink(name='K', upstream=[m3])
    if params['scheduler']:
        sched = ActionScheduler([(params['on'], True), (params['off'], False)], name='shift')
        sched.register_object(m1, shift_action)
        sched.register_object(m3)
    mt = Maintainer(name='mt', capacity=1)
    if params['sensor']:
        PeriodicSensor(1.5, [AttributeProbe('uptime', m3)], name='ps', data_capacity=5)
    for t in params['orders']:
        system.env.schedule_event(t, mt.id, OrderAction(mt, m3, 'x'), 3)
    cut = params.get('persist_at')
    if cut:
        # the System is saved in the middle of the simulation (pickle / copy.deepcopy / utils.save_object, as in
        # examples/SaveSimulationToFile.py) and the original is then continued: the saved copy holds what the original
        # held at that moment, and saving disturbs nothing
        system.simulate(cut, print_summary=False)
        before = plain_digest(system)
        how = params.get('persist_how', 'pickle')
        if how == 'none':
            loaded = system         # (reference: the same two runs without saving anything)
        elif how == 'pickle':
            import pickle
            loaded = pickle.loads(pickle.dumps(system))
        elif how == 'deepcopy':
            import copy
            loaded = copy.deepcopy(system)
        else:
            import os
            import tempfile
            from simprocesd.utils import save_object, load_object
            fd, path = tempfile.mkstemp(prefix='simmon_save_', dir=os.environ.get('TMPDIR', '/tmp'))
            os.close(fd)
            try:
                save_object(system, path, override_file=True)
                loaded = load_object(path)
            finally:
                os.remove(path)
        loaded.h_base = system.h_base
        if how != 'none' and params.get('continue_copy'):
            # the saved copy is continued on its own (through its Environment: only the newest System may simulate())
            # before the original is; the process-wide random stream and id counter are put back afterwards, so both
            # continuations see the same draws and must both equal the reference
            from simprocesd.model.factory_floor.asset import Asset as _A
            st, idc = random.getstate(), _A._id_counter
            _A._id_counter = idc + 1        # (the original creates one more asset before it is continued, see below)
            loaded.env.run(params['horizon'] - cut)
            system.h_copy_digest = plain_digest(loaded)
            random.setstate(st)
            _A._id_counter = idc
        system.h_saved_ok = ((plain_digest(loaded) == before or params.get('continue_copy')) and plain_digest(system) == before
                             and sorted(getattr(a, 'name', '') or '' for a in loaded.find_assets())
                             == sorted(getattr(a, 'name', '') or '' for a in system.find_assets()))
        # an asset created after the save; the original is continued; the old save is loaded once more at the end and
        # one more asset is created: its id must be its own (ids key the pausing and cancelling of events)
        blob = None
        if how == 'pickle':
            import pickle
            blob = pickle.dumps(loaded)
        plain_machine_class()(name='late_M', cycle_time=1)
        system.simulate(params['horizon'] - cut, print_summary=False)
        if blob is not None:
            pickle.loads(blob)
        from simprocesd.model.factory_floor import PartHandler
        PartHandler(name='after_load')
        ids = [a.id for a in system.find_assets()]
        system.h_ids_unique = len(ids) == len(set(ids))
    else:
        system.simulate(params['horizon'], print_summary=False)
    system.h_index = index
    system.h_digest = plain_digest(system)


def run(sh):
    from simprocesd.model import System
    plain_machine_class()       # (defined before any worker process is forked and before results are unpickled)
    n = 72 if sh.tier == 'quick' else 8000
    npar = 24 if sh.tier == 'quick' else 400
    profiles = ['general', 'routing', 'resources', 'faults']
    for i in sh.share(n):
        seed = core.stable_int(sh.seed, 'C14', i) % (1 << 30)
        rng = random.Random(seed)
        spec = modelgen.generate(seed, profiles[i % 4])
        if i % 6 == 5:
            spec = modelgen.generate_shared_cell(seed)       # permanent competition for one shared cell
        total = sum(spec['horizon'])
        spec['horizon'] = [total]
        spec.pop('between', None)
        case = {'engine': 'repro', 'spec': spec, 'seed': seed}
        try:
            # (a) same seed twice (native random tie-breaks), different id offsets; another seed
            if i % 3 == 0 or i % 4 == 1 or i % 4 == 0:
                spec['default_names'] = True         # devices named <Class>_<id> by the library
            from simprocesd.model.factory_floor.asset import Asset as _A0
            c0 = _A0._id_counter
            d1, ev1, m1 = run_model(spec, seed, [total], 'native', offset=0)
            # an id offset chosen so that the model's assets straddle a power of ten (Source_9 / Source_10 ...)
            from simprocesd.model.factory_floor.asset import Asset as _A
            c = _A._id_counter
            target = 10 ** len(str(c))
            if target - c < 20000:
                nsrc = len([it for it in spec['items'] if it['kind'] == 'source'])
                if nsrc >= 2 and rng.random() < 0.4:
                    k = rng.randint(2, nsrc)        # the power of ten falls between two sources (created first)
                else:
                    # ... or anywhere among the model's assets (group paths, gates, machines; groups create two
                    # internal assets each)
                    k = rng.randint(1, max(1, 2 * len(spec['items'])))
                ks = [k]
                if spec.get('default_names'):
                    # aimed: the power of ten exactly between two paths of one shared group (their default names then
                    # sort differently as strings than as numbers)
                    by_group = {}
                    for it in spec['items']:
                        if it['kind'] == 'path':
                            by_group.setdefault(it['group'], []).append(m1.devs[it['id']].id)
                    for ids in by_group.values():
                        if len(ids) >= 2:
                            for j in range(1, len(ids)):
                                # (the k-th asset of the model gets the id `target`: exactly this path)
                                ks.append(sorted(ids)[j] - c0)
                                sh.count('id_offsets_between_two_paths_of_a_group')
                if spec.get('default_names'):
                    # default names carry the ids: the boundary is moved across several pairs of assets
                    ks += rng.sample(range(1, 2 * len(spec['items']) + 2), min(8, 2 * len(spec['items'])))
                for k in ks:
                    c = _A._id_counter
                    target = 10 ** len(str(c))
                    if target - c >= 20000:
                        break
                    d4, ev4, _ = run_model(spec, seed, [total], 'native', offset=max(0, target - c - k))
                    if d4 != d1:
                        sh.violation('same_seed_differs', f'two runs with seed {seed} differ when the asset ids straddle '
                                     f'{target} ({k} assets below it): {first_diff(d1, d4)}', case, engine='repro')
                        break
                    sh.count('same_seed_pairs_equal')
                    sh.count('id_offsets_straddling_a_power_of_ten')
            d2, ev2, _ = run_model(spec, seed, [total], 'native', offset=rng.choice([1, 3, 5, 50, 500]))
            d3, ev3, _ = run_model(spec, seed + 1, [total], 'native', offset=2)
            sh.count('events', ev1 + ev2 + ev3)
            if d1 != d2:
                sh.violation('same_seed_differs', f'two runs with seed {seed} differ: {first_diff(d1, d2)}', case,
                             engine='repro')
            else:
                sh.count('same_seed_pairs_equal')
            differs = d1 != d3
            if differs:
                sh.count('models_where_other_seed_differs')
            # (a') the same two consecutive runs, once as they are and once with the second run traced: watching a
            # run must not change it
            half = int(total * 4) / 8.0
            if 0 < half < total:
                dA, _e, _m = run_model(spec, seed, [half, total - half], 'native', offset=1)
                dB, _e, _m = run_model(spec, seed, [half, total - half], 'native', offset=1, traced=(1,))
                if dA != dB:
                    sh.violation('same_seed_differs', f'two runs with seed {seed} differ when the second of two consecutive '
                                 f'simulate() calls is traced: {first_diff(dA, dB)}', case, engine='repro')
                else:
                    sh.count('traced_vs_untraced_pairs_equal')
            # (b) split vs unsplit under keyed tie-breaks
            k = rng.choice([1, 2, 3])
            cuts = sorted({rng.randrange(1, int(total * 8)) / 8.0 for _ in range(k)})
            pts = [0.0] + cuts + [total]
            segs = [b - a for a, b in zip(pts, pts[1:])]
            u, evu, mu = run_model(spec, seed, [total], 'keyed', offset=rng.choice([0, 3]))
            # also split exactly at an instant at which a pool changed (a release at the very end of a run)
            rtimes = sorted({r[0] for recs in mu.system.simulation_data.get('resource_update', {}).values()
                             for r in recs if 0 < r[0] < total})
            if rtimes and rng.random() < 0.7:
                cuts = sorted(set(cuts) | {rng.choice(rtimes)})
                pts = [0.0] + cuts + [total]
                segs = [b - a for a, b in zip(pts, pts[1:])]
                sh.count('splits_at_a_pool_change')
            # ... and in particular at releases out of a fully used pool (somebody may be waiting for it)
            hot = []
            for rname, recs in mu.system.simulation_data.get('resource_update', {}).items():
                for a, b in zip(recs, recs[1:]):
                    if b[1] < a[1] and a[1] >= a[2] and 0 < b[0] < total:
                        hot.append(b[0])
            for cut in rng.sample(sorted(set(hot)), min(3, len(set(hot)))):
                h, evh, _ = run_model(spec, seed, [cut, total - cut], 'keyed')
                sh.count('splits_at_a_release_from_a_full_pool')
                if h != u:
                    sh.violation('split_differs', f'split at {cut} (a release out of a fully used pool) differs from the '
                                 f'unsplit run: {first_diff(u, h)}', dict(case, segments=[cut, total - cut]),
                                 engine='repro')
                    break
            s, evs, _ = run_model(spec, seed, segs, 'keyed', offset=rng.choice([0, 5]))
            if u != s:
                sh.violation('split_differs', f'split at {cuts} differs from the unsplit run: {first_diff(u, s)}',
                             dict(case, segments=segs), engine='repro')
            else:
                sh.count('split_runs_equal')
            # ... and exactly at an instant at which two operations of the user's are due at priorities BELOW the end
            # marker's (they are left for the next run), the first of which sets off a hand-over at normal priority
            cand = [it['id'] for it in spec['items'] if it['kind'] in ('handler', 'processor', 'buffer') and it.get('up')
                    and not it.get('group')]
            if cand and total > 4:
                import copy as _copy
                dsub = rng.choice(cand)
                tsub = rng.randrange(12, int((total - 2) * 8)) / 8.0
                spec2 = _copy.deepcopy(spec)
                spec2['script'] = sorted(spec2.get('script', []) + [
                    {'t': tsub - 1, 'prio': 5, 'op': 'block', 'target': dsub},
                    {'t': tsub, 'prio': 0.75, 'op': 'unblock', 'target': dsub},
                    {'t': tsub, 'prio': 0.5, 'op': 'block', 'target': dsub},
                    {'t': tsub + 1.5, 'prio': 5, 'op': 'unblock', 'target': dsub}], key=lambda e: e['t'])
                u2, _, _ = run_model(spec2, seed, [total], 'keyed')
                s2, _, _ = run_model(spec2, seed, [tsub, total - tsub], 'keyed')
                if u2 != s2:
                    sh.violation('split_differs', f'split at {tsub}, where {dsub} is opened (priority 0.75) and closed again '
                                 f'(priority 0.5) below the end marker\'s priority, differs from the unsplit run: '
                                 f'{first_diff(u2, s2)}', dict(case, spec=spec2, segments=[tsub, total - tsub]),
                                 engine='repro')
                else:
                    sh.count('split_runs_equal')
                    sh.count('splits_at_operations_below_the_end_markers_priority')
            ku, _, _ = run_model(spec, seed + 7, [total], 'keyed')
            if ku != u:
                sh.count('keyed_models_where_other_seed_differs')
            sh.case_done({'spec_hash': core.case_hash(spec), 'seed': seed}, differs,
                         sample={'seed': seed, 'devices': len(spec['items']), 'segments': segs,
                                 'events': ev1, 'other_seed_differs': differs})
        except Exception as e:
            import traceback
            sh.count('crashed_cases')
            sh.notes.append(f'C14 case crashed: {type(e).__name__}: {e} {traceback.format_exc()[-600:]}')
    # (f) merge points wired up by one set_upstream() call in the middle of a run: the same seed at 16 consecutive
    # offsets of the id counter (every residue of the ids modulo 8 and 16 - the slot order of small hash tables)
    for i in sh.share(24 if sh.tier == 'quick' else 1200):
        seed = core.stable_int(sh.seed, 'C14merge', i) % (1 << 30)
        spec = modelgen.generate_late_merge(seed)
        total = sum(spec['horizon'])
        case = {'engine': 'repro', 'spec': spec, 'seed': seed}
        try:
            from simprocesd.model.factory_floor.asset import Asset as _A
            base0 = _A._id_counter
            d0, ev0, _ = run_model(spec, seed, [total], 'native', offset=0)
            for k in range(16):
                off = (base0 + k + 1 - _A._id_counter) % 16
                dk, evk, _ = run_model(spec, seed, [total], 'native', offset=off)
                sh.count('events', evk)
                if dk != d0:
                    sh.violation('same_seed_differs', f'two runs with seed {seed} differ when the id counter starts '
                                 f'{k + 1} further on (a station given several feeders by one set_upstream() call in '
                                 f'mid-run): {first_diff(d0, dk)}', case, engine='repro')
                    break
                sh.count('same_seed_pairs_equal')
                sh.count('late_merge_runs_at_consecutive_id_offsets')
            dz, _, _ = run_model(spec, seed + 1, [total], 'native', offset=0)
            if dz != d0:
                sh.count('late_merge_models_where_other_seed_differs')
            sh.case_done({'spec_hash': core.case_hash(spec), 'seed': seed, 'merge': True}, dz != d0,
                         sample={'late_merge': True, 'devices': len(spec['items'])})
        except Exception as e:
            import traceback
            sh.count('crashed_cases')
            sh.notes.append(f'C14 late-merge case crashed: {type(e).__name__}: {e} {traceback.format_exc()[-600:]}')
    # (e) the same model and seed in fresh interpreters with different hash seeds
    for i in sh.share(32 if sh.tier == 'quick' else 480):
        hashseed_case(sh, i)
    # (d) the whole model deep-copied in the middle of the simulation: the copy, continued on its own, and the
    # original, continued afterwards, both end like the run that was never copied
    for i in sh.share(144 if sh.tier == 'quick' else 12000):
        # (three copy instants per generated model)
        seed = core.stable_int(sh.seed, 'C14copy', i // 3) % (1 << 30)
        rng = random.Random(seed * 3 + i % 3)
        spec = modelgen.generate(seed, ['general', 'routing', 'resources', 'faults', 'batching', 'routing'][(i // 3) % 6],
                                 overrides={'p_scheduler': 0.7})
        total = sum(spec['horizon'])
        spec['horizon'] = [total]
        spec.pop('between', None)
        cut = rng.randrange(1, int(total * 8)) / 8.0
        fails = [o['t'] for o in spec.get('script', []) if o['op'] == 'fail' and o['t'] is not None and o['t'] + 0.125 < total]
        if fails and rng.random() < 0.6:
            cut = rng.choice(fails) + 0.125      # right after a failure (possibly of a machine that is down: its paused
            #                                        events have just been cancelled)
        # a sensor watching one of the line's devices (its measurements are part of the digest); assets that are not
        # wired to the line (the maintainer) are created first, as in examples/DataExploration.py
        spec['items'].sort(key=lambda it: 0 if it['kind'] == 'maintainer' else 1)
        watch = [it['id'] for it in spec['items'] if it['kind'] in ('processor', 'sink', 'source')]
        if watch:
            tgt = rng.choice(watch)
            kind = next(it['kind'] for it in spec['items'] if it['id'] == tgt)
            attrs = {'processor': ['utilization_time', 'uptime'], 'sink': ['received_parts_count'],
                     'source': ['produced_parts']}[kind]
            spec['items'].append({'id': 'PSX', 'kind': 'psensor', 'interval': rng.choice([0.25, 0.5, 0.125]),
                                  'target': tgt, 'attrs': attrs, 'capacity': rng.choice([None, 8])})
        # registrations of an operating schedule changed after the copy instant (in the copy: on the copied objects)
        for it in spec['items']:
            if it['kind'] == 'scheduler' and it.get('targets') and cut + 1 < total:
                tgt = rng.choice(it['targets'])
                t1 = cut + rng.randrange(1, max(2, int((total - cut) * 4))) / 8.0
                spec['script'] = sorted(spec['script'] + [
                    {'t': t1, 'prio': 10.5, 'op': 'sched_unregister', 'sched': it['id'], 'target': tgt},
                    {'t': min(total, t1 + rng.choice([1.5, 3, 6])), 'prio': 10.5, 'op': 'sched_register',
                     'sched': it['id'], 'target': tgt}], key=lambda e: e['t'])
        case = {'engine': 'copy', 'spec': spec, 'seed': seed, 'cut': cut}
        try:
            ref, _, _ = run_model(spec, seed, [cut, total - cut], 'native')
            d_orig, d_copy = run_model_with_copy(spec, seed, cut, total)
        except Exception as e:
            import traceback
            sh.violation('copy_crash', f'{type(e).__name__}: {e} {traceback.format_exc()[-900:]}', case, engine='copy')
            continue
        if d_copy != ref:
            sh.violation('saved_copy_differs', f'model deep-copied at {cut}: the copy, continued on its own, differs from '
                         f'the run that was never copied: {first_diff(ref, d_copy)}', case, engine='copy')
        elif d_orig != ref:
            sh.violation('saved_copy_differs', f'model deep-copied at {cut}: the original, continued after its copy had '
                         f'been run, differs from the run that was never copied: {first_diff(ref, d_orig)}', case,
                         engine='copy')
        else:
            sh.count('models_copied_half_way_and_both_continued')
        # ... and a checkpoint taken from inside an event of the running simulation
        try:
            ref2, _ = run_model_with_snapshot(spec, seed, cut, total, False)
            o2, c2 = run_model_with_snapshot(spec, seed, cut, total, True)
        except Exception as e:
            import traceback
            sh.violation('copy_crash', f'{type(e).__name__}: {e} {traceback.format_exc()[-900:]}', dict(case, inside=True),
                         engine='copy')
            continue
        if o2 != ref2:
            sh.violation('saved_copy_differs', f'model deep-copied from inside an event at {cut}: the original run differs '
                         f'from the same run without the checkpoint: {first_diff(ref2, o2)}', dict(case, inside=True),
                         engine='copy')
        elif c2 is not None and c2 != ref2:
            sh.violation('saved_copy_differs', f'model deep-copied from inside an event at {cut}: the copy, continued '
                         f'afterwards, differs from the original: {first_diff(ref2, c2)}', dict(case, inside=True),
                         engine='copy')
        else:
            sh.count('checkpoints_taken_inside_an_event')
        sh.case_done({'spec_hash': core.case_hash(spec), 'seed': seed, 'copy': cut}, True,
                     sample={'copied_at': cut, 'devices': len(spec['items'])})
    # (c)
    for i in sh.share(npar):
        seed = core.stable_int(sh.seed, 'C14par', i) % (1 << 30)
        rng = random.Random(seed)
        spec = modelgen.generate(seed, profiles[i % 4])
        spec['horizon'] = [sum(spec['horizon'])]
        spec.pop('between', None)
        sj = json.dumps(spec)
        nsim = rng.choice([4, 5, 6, 8])
        case = {'engine': 'parallel', 'spec': spec, 'seed': seed, 'n': nsim}
        try:
            ref = System.simulate_multiple_times(parallel_simulation, nsim, 0, sj, seed)
            refd = [s.h_digest for s in ref]
            if [s.h_index for s in ref] != list(range(nsim)):
                sh.violation('index_order', f'in-process: systems returned in order {[s.h_index for s in ref]}',
                             case, engine='parallel')
                continue
            for mp in (1, 2, 4, None):
                res = System.simulate_multiple_times(parallel_simulation, nsim, mp, sj, seed)
                if len(res) != nsim or [s.h_index for s in res] != list(range(nsim)):
                    sh.violation('index_order', f'max_processes={mp}: systems returned in order '
                                 f'{[getattr(s, "h_index", None) for s in res]}', dict(case, max_processes=mp),
                                 engine='parallel')
                    break
                bad = [k for k in range(nsim) if res[k].h_digest != refd[k]]
                if bad:
                    sh.violation('parallel_differs', f'max_processes={mp}: simulation {bad[0]} differs from the '
                                 f'in-process result: {first_diff(refd[bad[0]], res[bad[0]].h_digest)}',
                                 dict(case, max_processes=mp), engine='parallel')
                    break
                # the returned system itself must carry the data (not only the digest computed in the worker)
                if any(res[k].simulation_data.keys() != ref[k].simulation_data.keys() or res[k].env.now != ref[k].env.now
                       for k in range(nsim)):
                    sh.violation('parallel_differs', f'max_processes={mp}: returned systems carry different data',
                                 dict(case, max_processes=mp), engine='parallel')
                    break
                sh.count('parallel_results_compared', nsim)
            sh.count('parallel_calls', 5)
            # the same with a model made of library classes only
            params = {'operators': rng.choice([1, 2]), 'src_ct': rng.choice([0.5, 1]), 'ct1': rng.choice([1, 2, 3]),
                      'ct2': rng.choice([1.5, 2.5]), 'ct3': rng.choice([0.5, 1]), 'cap': rng.choice([1, 3]),
                      'scheduler': rng.random() < 0.7, 'on': rng.choice([4, 6]), 'off': rng.choice([1, 2]),
                      'sensor': rng.random() < 0.5, 'orders': sorted(rng.sample(range(1, 30), 2)),
                      'horizon': float(rng.choice([30, 40]))}
            if rng.random() < 0.6:
                # a work order that takes time and is still in progress when the run ends (the returned System
                # carries its pending FINISH_WORK event)
                params['wo_duration'] = rng.choice([2.5, 4])
                params['orders'].append(params['horizon'] - rng.choice([0.5, 1, 2]))
                sh.count('plain_models_with_an_order_in_progress_at_the_end')
            if i % 5 == 2:
                params['horizon'] = float(rng.choice([600, 900]))       # a long causal history behind every event
                sh.count('plain_models_with_a_long_history')
            pcase = {'engine': 'parallel_plain', 'params': params, 'seed': seed, 'n': nsim}
            pref = System.simulate_multiple_times(plain_simulation, nsim, 0, params, seed)
            if params['horizon'] < 100:
                # the same runs with the System saved half-way (and the original continued)
                cut = rng.choice([7.0, 12.5, 20.0])
                # (reference: the same two consecutive runs with nothing saved in between - a second run draws one
                # more tie-break weight for its end marker, so an unsplit run is not comparable under native ties)
                psplit = System.simulate_multiple_times(plain_simulation, nsim, 0,
                                                        dict(params, persist_at=cut, persist_how='none'), seed)
                for how in ('pickle', 'deepcopy', 'save_object'):
                    pp = dict(params, persist_at=cut, persist_how=how, continue_copy=rng.random() < 0.5)
                    psaved = System.simulate_multiple_times(plain_simulation, nsim, 0, pp, seed)
                    if pp['continue_copy']:
                        badc = [k for k in range(nsim) if psaved[k].h_copy_digest != psplit[k].h_digest]
                        if badc:
                            k = badc[0]
                            sh.violation('saved_copy_differs', f'plain model saved with {how} at {cut}: the copy, continued on '
                                         f'its own, differs from the original continued without saving: '
                                         + first_diff(psplit[k].h_digest, psaved[k].h_copy_digest),
                                         dict(pcase, params=pp), engine='parallel')
                            break
                        sh.count('saved_copies_continued', nsim)
                    if any(not getattr(x, 'h_ids_unique', True) for x in psaved):
                        sh.violation('saved_copy_differs', f'plain model saved with {how} at {cut}: after the old save had '
                                     f'been loaded once more, a newly created asset got an id that another asset of the '
                                     f'System already has', dict(pcase, params=pp), engine='parallel')
                        break
                    badk = [k for k in range(nsim) if psaved[k].h_digest != psplit[k].h_digest
                            or not getattr(psaved[k], 'h_saved_ok', False)]
                    if badk:
                        k = badk[0]
                        sh.violation('saved_copy_differs' if not getattr(psaved[k], 'h_saved_ok', False) else 'split_differs',
                                     f'plain model saved with {how} at {pp["persist_at"]} and continued: '
                                     + ('the saved copy (or the original right after saving) differs from the original at that moment'
                                        if not getattr(psaved[k], 'h_saved_ok', False)
                                        else 'the continued original differs from the uninterrupted run: '
                                        + first_diff(psplit[k].h_digest, psaved[k].h_digest)),
                                     dict(pcase, params=pp), engine='parallel')
                        break
                    sh.count('runs_saved_half_way_and_continued', nsim)
            for mp in (1, 3, None):
                pres = System.simulate_multiple_times(plain_simulation, nsim, mp, params, seed)
                if [getattr(x, 'h_index', None) for x in pres] != list(range(nsim)):
                    sh.violation('index_order', f'plain model, max_processes={mp}: order '
                                 f'{[getattr(x, "h_index", None) for x in pres]}', dict(pcase, max_processes=mp),
                                 engine='parallel')
                    break
                bad = [k for k in range(nsim) if pres[k].h_digest != pref[k].h_digest
                       or plain_digest(pres[k]) != pref[k].h_digest]
                if bad:
                    sh.violation('parallel_differs', f'plain model, max_processes={mp}: simulation {bad[0]} differs: '
                                 f'{first_diff(pref[bad[0]].h_digest, plain_digest(pres[bad[0]]))}',
                                 dict(pcase, max_processes=mp), engine='parallel')
                    break
                sh.count('parallel_results_compared', nsim)
                sh.count('plain_parallel_results_compared', nsim)
            if i % 2 == 0:
                # two studies in one session, a process-wide parameter changed in between: the second call's workers
                # see what the calling process sees
                mpk = rng.choice([1, 2])
                STUDY['ct'] = 1.0
                System.simulate_multiple_times(study_simulation, 3, mpk, seed)
                STUDY['ct'] = rng.choice([2.5, 4.0])
                b_w = [x.h_study for x in System.simulate_multiple_times(study_simulation, 3, mpk, seed)]
                b_0 = [x.h_study for x in System.simulate_multiple_times(study_simulation, 3, 0, seed)]
                STUDY['ct'] = 1.0
                if b_w != b_0:
                    sh.violation('parallel_differs', f'second study of a session with max_processes={mpk}: results '
                                 f'{b_w} differ from the in-process results {b_0} (a parameter of the calling process '
                                 f'was changed between the two calls)', dict(case, max_processes=mpk), engine='parallel')
                else:
                    sh.count('second_studies_compared_with_in_process_runs')
            sh.case_done({'spec_hash': core.case_hash(spec), 'seed': seed, 'par': True}, len(set(refd)) > 1,
                         sample={'parallel': True, 'n': nsim, 'distinct_results': len(set(refd))})
        except Exception as e:
            import traceback
            sh.violation('parallel_crash', f'{type(e).__name__}: {e} {traceback.format_exc()[-900:]}', case,
                         engine='parallel')


def digest_main(path):
    """Child process of the hash-seed leg: build the model in <path>, run it, print its digest."""
    import hashlib
    core.load_library()
    case = json.load(open(path))
    d, _, _ = run_model(case['spec'], case['seed'], [sum(case['spec']['horizon'])], 'native')
    print('DIGEST ' + hashlib.sha256(d.encode()).hexdigest())


def hashseed_case(sh, i):
    """The same model with the same seed in fresh interpreters that differ only in PYTHONHASHSEED: nothing a user can
    read afterwards may depend on the iteration order of hash-based containers."""
    import subprocess
    import tempfile
    seed = core.stable_int(sh.seed, 'C14hash', i) % (1 << 30)
    hash_seeds = ('0', '1', '4242')
    if i % 4 == 3:
        spec = modelgen.generate_pool_race(seed)
        hash_seeds = ('0', '1', '2', '3', '4242', '77')
    elif i % 2:
        # several pools, machines needing two of them at once, many waiters: the order in which waiters are served when
        # several pools change at one instant must not come from a hash table
        spec = modelgen.generate(seed, ['resources', 'resfaults'][(i // 2) % 2],
                                 overrides={'n_resources': (2, 3), 'res_cap': (1, 1), 'n_sources': (2, 3)})
    else:
        spec = modelgen.generate(seed, ['routing', 'general', 'faults', 'batching'][(i // 2) % 4])
    spec['horizon'] = [sum(spec['horizon'])]
    spec.pop('between', None)
    if i % 2:
        spec['default_names'] = True
    case = {'engine': 'hashseed', 'spec': spec, 'seed': seed}
    root = os.path.dirname(os.path.dirname(os.path.dirname(os.path.abspath(__file__))))
    fd, path = tempfile.mkstemp(prefix='simmon_hash_', suffix='.json')
    os.close(fd)
    try:
        json.dump(case, open(path, 'w'))
        outs = []
        for hs in hash_seeds:
            env = dict(os.environ, PYTHONHASHSEED=hs, PYTHONPATH=root + os.pathsep + os.environ.get('PYTHONPATH', ''))
            r = subprocess.run([sys.executable, '-c',
                                f'from simmon.props import C14; C14.digest_main({path!r})'],
                               capture_output=True, text=True, env=env, cwd=root, timeout=600)
            line = [x for x in r.stdout.splitlines() if x.startswith('DIGEST ')]
            if not line:
                sh.notes.append('hash-seed child failed: ' + (r.stderr or r.stdout)[-400:])
                sh.count('hashseed_children_failed')
                return
            outs.append(line[0])
        if len(set(outs)) > 1:
            sh.violation('same_seed_differs', f'the same model with seed {seed} ends differently in interpreters started with '
                         f'PYTHONHASHSEED {' / '.join(hash_seeds)} (digests {[o[7:15] for o in outs]})', case, engine='hashseed')
        else:
            sh.count('models_compared_across_hash_seeds')
        sh.case_done({'spec_hash': core.case_hash(spec), 'seed': seed, 'hash': True}, True,
                     sample={'hash_seeds': 3, 'devices': len(spec['items'])})
    finally:
        os.remove(path)


def replay(sh, v):
    case = v['case']
    spec = case['spec']
    seed = case['seed']
    total = sum(spec['horizon'])
    if case.get('engine') == 'copy':
        ref, _, _ = run_model(spec, seed, [case['cut'], total - case['cut']], 'native')
        d_orig, d_copy = run_model_with_copy(spec, seed, case['cut'], total)
        if d_copy != ref or d_orig != ref:
            sh.violation('saved_copy_differs', first_diff(ref, d_copy if d_copy != ref else d_orig), case, engine='copy')
        return
    if case.get('engine') == 'repro':
        d1, _, _ = run_model(spec, seed, [total], 'native', 0)
        d2, _, _ = run_model(spec, seed, [total], 'native', 5)
        if d1 != d2:
            sh.violation('same_seed_differs', first_diff(d1, d2), case, engine='repro')
        segs = case.get('segments') or [total / 2, total / 2]
        u, _, _ = run_model(spec, seed, [total], 'keyed')
        s, _, _ = run_model(spec, seed, segs, 'keyed')
        if u != s:
            sh.violation('split_differs', first_diff(u, s), case, engine='repro')
