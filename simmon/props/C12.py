"""C12 - maintainer: capacity, one order per target, request order, exact durations.

Engine: a real System + Maintainer and harness Maintainable targets.  A request
stream (bursts in one instant, duplicates, zero / oversized capacities, zero
durations, requests issued from inside start/end hooks) is scheduled as events;
a small reference acceptor is fed with the observed stream (request calls in
the order they are issued, completions when the real finish event ends) and
judges return values, the set of orders started per instant, capacity,
durations, hooks and costs, and leftovers at every clock advance.
"""
import random

from .. import core, instrument, ties
from ..instrument import action_name

SPEC = {
    'level': 'exploration',
    'rule': ('request streams for a real Maintainer (capacity 0.5-4 or unbounded, 1-5 targets, tags 1-3, needed '
             'capacity incl. 0 and more than the total, durations incl. 0, duplicate bursts in one instant, requests '
             'issued from inside start and end hooks) under 4 tie-break policies, judged by a reference acceptor fed '
             'with the observed stream: create_work_order return values, the SET of orders started per instant '
             '(orders selected in one scan start in random relative order), capacity in use and available_capacity '
             'after every event, one order per target, end == start + duration reported at start, hooks and cost '
             'once each, no startable order left at a clock advance; a case is one stream; non-trivial = an order '
             'overtook an earlier one or waited for its target; also: capacity hooks that fail once (the caller asks again later), work-order costs that change with every order, long request histories'),
    'floors': {'quick': {'orders_completed': 5000, 'overtakes': 300, 'waited_for_target': 300,
                         'duplicates_rejected': 300, 'clock_advances_checked': 5000, 'line_orders_completed': 200},
               'thorough': {'orders_completed': 150000, 'overtakes': 9000, 'waited_for_target': 9000,
                            'duplicates_rejected': 9000, 'clock_advances_checked': 150000}},
    'assumptions': ['hooks that re-request use tags of their own, so the "is the finishing order still in progress '
                    'during its end hook" ambiguity is never judged', 'amounts and times on the dyadic grid'],
    'timeout_s': {'quick': 900, 'thorough': 7200},
}


class HarnessError(Exception):
    pass


class Order:
    def __init__(self, n, target, tag, needed):
        self.n, self.target, self.tag, self.needed = n, target, tag, needed
        self.selected_at = None
        self.started_at = None
        self.duration = None


class RefMaintainer:
    def __init__(self, capacity):
        self.capacity = capacity
        self.util = 0
        self.queue = []
        self.active = []

    def requested(self, target, tag):
        return any(o.target == target and o.tag == tag for o in self.queue + self.active)

    def scan(self, now):
        sel = []
        i = 0
        while i < len(self.queue):
            o = self.queue[i]
            busy = any(a.target == o.target for a in self.active)
            if self.util <= self.capacity - o.needed and not busy:
                self.queue.pop(i)
                self.active.append(o)
                self.util += o.needed
                o.selected_at = now
                sel.append(o)
            else:
                i += 1
        return sel

    def startable(self):
        out = []
        for o in self.queue:
            if self.util <= self.capacity - o.needed and not any(a.target == o.target for a in self.active):
                out.append(o)
        return out


class Run:
    def __init__(self, sh, case):
        core.load_library()
        from simprocesd.model import System
        from simprocesd.model.factory_floor import Maintainer, Maintainable
        instrument.install()
        self.sh, self.case = sh, case
        run = self

        class HTarget(Maintainable):
            def __init__(self, name, table, hook_requests, nameless=False):
                # the Maintainable interface does not ask for a name: some targets have none
                self.h_name = name
                if not nameless:
                    self.name = name
                self.cap_fails = {}
                self.cap_calls = {}
                self.h_len = 3
                self.table = table                # tag -> [duration, capacity, cost]
                self.hook_requests = hook_requests  # tag -> [('start'|'end', target name, tag)]

            def __len__(self):
                # (a rack's length is the number of tools on it: some targets are empty, i.e. falsy)
                return self.h_len

            def get_work_order_duration(self, tag):
                d = self.table[tag][0]
                run.duration_reads.append((self.h_name, tag, d, run.env.now))
                return d

            def get_work_order_capacity(self, tag):
                k = self.cap_fails.get(tag)
                if k is not None:
                    self.cap_calls[tag] = self.cap_calls.get(tag, 0) + 1
                    if self.cap_calls[tag] == k:
                        raise HarnessError('the capacity hook failed')      # user code failing once
                return self.table[tag][1]

            def get_work_order_cost(self, tag):
                return self.table[tag][2]

            def start_work(self, tag):
                run.on_hook(self.h_name, tag, 'start')
                for when, tn, tg in self.hook_requests.get(tag, []):
                    if when == 'start':
                        run.request(tn, tg)

            def end_work(self, tag):
                run.on_hook(self.h_name, tag, 'end')
                for when, tn, tg in self.hook_requests.get(tag, []):
                    if when == 'end':
                        run.request(tn, tg)

        self.bus = instrument.Bus(ties.make_policy(case.get('tie', 'prng'), case.get('tie_seed', 0)))
        with instrument.use_bus(self.bus):
            self.system = System()
            self.env = self.system.env
            cap = case['capacity']
            self.maint = Maintainer(name='M', capacity=float('inf') if cap is None else cap)
        self.targets = {}
        for name, t in case['targets'].items():
            hooks = {tag: [tuple(x) for x in lst] for tag, lst in t.get('hooks', {}).items()}
            self.targets[name] = HTarget(name, t['table'], hooks, t.get('nameless', False))
            self.targets[name].cap_fails = dict(t.get('cap_fails') or {})
            if t.get('falsy'):
                self.targets[name].h_len = 0
            if t.get('display_name') and hasattr(self.targets[name], 'name'):
                # several targets carry the same name (names are labels, not identities)
                self.targets[name].name = t['display_name']
        self.ref = RefMaintainer(float('inf') if case['capacity'] is None else case['capacity'])
        self.bus.attach(self)
        self.failed = False
        self.norders = 0
        self.orders_by_key = {}      # (target, tag) -> Order currently queued/active in the model
        self.duration_reads = []
        self.started_now = []        # orders whose start hook ran at the current instant
        self.selected_now = []       # orders the model selected at the current instant
        self.open = {}               # target -> Order started and not ended
        self.ended_in_event = None
        self.cost_sum = 0
        self.overtakes = 0
        self.waited_target = 0
        self.completed = 0

    def fail(self, name, msg):
        if not self.failed:
            self.failed = True
            self.sh.violation(name, msg, self.case, engine='maint', witness={'now': self.env.now})

    # -- request issued by the script or by a hook ---------------------------------------------------
    def request(self, tname, tag):
        if self.failed:
            return
        ref = self.ref
        now = self.env.now
        want = not ref.requested(tname, tag)
        target = self.targets[tname]
        try:
            got = self.maint.create_work_order(target, tag, info=f'{tname}/{tag}')
        except HarnessError:
            # the request was not accepted (its capacity hook failed); the caller carries on, nothing has changed
            self.sh.count('requests_whose_capacity_hook_failed')
            return
        self.sh.count('requests')
        if got is not want:
            self.fail('return_value', f'create_work_order({tname}, {tag}) at {now!r} returned {got!r}; an identical '
                      f'order is {"" if not want else "not "}queued or in progress')
            return
        if not want:
            self.sh.count('duplicates_rejected')
            return
        self.norders += 1
        o = Order(self.norders, tname, tag, target.table[tag][1])
        if any(a.target == tname for a in ref.active):
            o.waits_target = True
        ref.queue.append(o)
        before = [q.n for q in ref.queue]
        sel = ref.scan(now)
        self.note_selection(sel, before)

    def note_selection(self, sel, queue_before):
        for o in sel:
            self.selected_now.append(o)
            # overtook an earlier request that is still queued?
            if any(q.n < o.n for q in self.ref.queue):
                self.overtakes += 1
                self.sh.count('overtakes')
            if getattr(o, 'waits_target', False):
                self.waited_target += 1
                self.sh.count('waited_for_target')

    # -- hooks -------------------------------------------------------------------------------------------
    def on_hook(self, tname, tag, what):
        if self.failed:
            return
        now = self.env.now
        if what == 'start':
            if tname in self.open:
                self.fail('two_orders_on_target', f'{tname}: order {tag} started at {now!r} while order '
                          f'{self.open[tname].tag} (started {self.open[tname].started_at!r}) is in progress')
                return
            o = next((a for a in self.ref.active if a.target == tname and a.tag == tag and a.started_at is None),
                     None)
            if o is None:
                self.fail('unexpected_start', f'{tname}/{tag} started at {now!r} but the reference has not selected it '
                          f'(queue {[ (q.target, q.tag) for q in self.ref.queue]}, active '
                          f'{[(a.target, a.tag) for a in self.ref.active]})')
                return
            o.started_at = now
            reads = [r for r in self.duration_reads if r[0] == tname and r[1] == tag and r[3] == now]
            o.duration = reads[-1][2] if reads else None
            if o.duration is None:
                self.fail('duration_not_read', f'{tname}/{tag}: duration was not read at start ({now!r})')
                return
            if o.selected_at != now:
                self.fail('start_instant', f'{tname}/{tag} selected at {o.selected_at!r} but started at {now!r}')
                return
            self.open[tname] = o
            self.started_now.append(o)
            self.cost_sum += self.targets[tname].table[tag][2]
        else:
            o = self.open.get(tname)
            if o is None or o.tag != tag:
                self.fail('unexpected_end', f'{tname}/{tag} ended at {now!r} but is not in progress')
                return
            if now != o.started_at + o.duration:
                self.fail('duration', f'{tname}/{tag} started {o.started_at!r} with duration {o.duration!r} but ended '
                          f'at {now!r}')
                return
            del self.open[tname]
            self.ended_in_event = o
            self.completed += 1
            self.sh.count('orders_completed')

    # -- bus --------------------------------------------------------------------------------------------
    def dispatched(self, ev):
        if self.failed:
            return
        if self.ended_in_event is not None:
            o = self.ended_in_event
            self.ended_in_event = None
            ref = self.ref
            # requests made by the end hook were processed with the order still in progress
            ref.util -= o.needed
            ref.active.remove(o)
            before = [q.n for q in ref.queue]
            self.note_selection(ref.scan(self.env.now), before)
        m = self.maint
        act = sum(a.needed for a in self.ref.active)
        if m.available_capacity != m.total_capacity - act:
            self.fail('capacity', f'available_capacity {m.available_capacity!r} != {m.total_capacity!r} - {act!r} '
                      f'(orders in progress {[(a.target, a.tag, a.needed) for a in self.ref.active]})')
            return
        if act > m.total_capacity:
            self.fail('capacity', f'capacity in use {act!r} exceeds {m.total_capacity!r}')
            return
        if m.value != -self.cost_sum:
            self.fail('cost', f'maintainer value {m.value!r}, cost of started orders {self.cost_sum!r}')
            return
        self.sh.count('capacity_checks')

    def before_advance(self, env, t):
        self.at_quiescence(f'clock about to advance from {env.now!r}')

    def at_quiescence(self, where):
        if self.failed:
            return
        self.sh.count('clock_advances_checked')
        a = sorted(o.n for o in self.started_now)
        b = sorted(o.n for o in self.selected_now)
        if a != b:
            names = {o.n: (o.target, o.tag) for o in self.started_now + self.selected_now}
            self.fail('starts_per_instant', f'{where}: orders started {[names[n] for n in a]}, reference selected '
                      f'{[names[n] for n in b]}')
            return
        self.started_now = []
        self.selected_now = []
        left = self.ref.startable()
        if left:
            self.fail('startable_order_left', f'{where}: queued order {(left[0].target, left[0].tag)} fits the remaining '
                      f'capacity and its target is free')
            return
        if len(self.maint._request_queue) != len(self.ref.queue) or \
                len(self.maint._active_requests) != len(self.ref.active):
            self.fail('queue_state', f'{where}: maintainer has {len(self.maint._request_queue)} queued / '
                      f'{len(self.maint._active_requests)} active, reference {len(self.ref.queue)} / '
                      f'{len(self.ref.active)}')

    def execute(self):
        with instrument.use_bus(self.bus):
            for t, prio, tn, tag in self.case['script']:
                def act(tn=tn, tag=tag):
                    self.request(tn, tag)
                act.__name__ = 'script_request'
                self.env.schedule_event(t, -2, act, prio)
            for t in self.case.get('clear_history_at', []):
                def report_and_clear():
                    # a per-period cost report: the user reads the maintainer's value history and empties the list it
                    # was handed; the charges made so far stay charged
                    n = len(self.maint.value_history)
                    self.maint.value_history.clear()
                    self.sh.count('value_histories_emptied_by_the_user')
                    self.sh.count('value_history_entries_discarded', n)
                report_and_clear.__name__ = 'script_report_and_clear'
                self.env.schedule_event(t, -2, report_and_clear, 5)
            try:
                self.system.simulate(self.case['horizon'], print_summary=False)
            except Exception as e:
                import traceback
                self.fail('crash', f'{type(e).__name__}: {e} {traceback.format_exc()[-1000:]}')
            self.at_quiescence('end of run')
        return {'overtakes': self.overtakes, 'waited': self.waited_target, 'completed': self.completed}


def gen_case(rng, tie):
    ntargets = rng.choice([1, 2, 2, 3, 4, 5])
    tags = ['a', 'b', 'c'][:rng.choice([1, 2, 3])]
    cap = rng.choice([None, 0.5, 1, 1, 2, 2, 3, 4])
    targets = {}
    names = [f't{k}' for k in range(ntargets)]
    for n in names:
        table = {}
        for tg in tags + ['h']:
            table[tg] = [rng.choice([0, 0.5, 1, 1, 2, 3, 0.25]), rng.choice([0, 0.5, 1, 1, 2, 3, 5]),
                         rng.choice([0, 1, 2.5, 0.5])]
        hooks = {}
        for tg in tags:
            if rng.random() < 0.2:
                # a hook re-requests with the dedicated tag 'h' (never with the tag that is finishing)
                hooks[tg] = [[rng.choice(['start', 'end']), rng.choice(names), 'h']]
        targets[n] = {'table': table, 'hooks': hooks, 'nameless': rng.random() < 0.15}
        if rng.random() < 0.15:
            targets[n]['cap_fails'] = {rng.choice(tags): rng.choice([1, 2, 3])}
        if rng.random() < 0.2:
            targets[n]['falsy'] = True
    if ntargets >= 2 and rng.random() < 0.25:
        for n in rng.sample(names, rng.choice([2, ntargets])):
            targets[n]['display_name'] = 'machine'
    horizon = 20.0
    n_req = rng.randint(5, 40)
    if rng.random() < 0.03:
        horizon, n_req = 2500.0, rng.randint(2500, 4500)      # long histories: thousands of orders
    script = []
    t = 0.0
    for _ in range(n_req):
        if rng.random() < 0.5:
            t = rng.randrange(0, int(horizon * 4)) / 4.0
        script.append([t, rng.choice([2, 3, 3, 4, 6, 10, 10.5, 2.5]), rng.choice(names), rng.choice(tags)])
    case = {'engine': 'maint', 'capacity': cap, 'targets': targets, 'script': script, 'horizon': horizon,
            'tie': tie, 'tie_seed': rng.randrange(1 << 30)}
    if case['tie_seed'] % 4 == 0:
        case['clear_history_at'] = [int(horizon * 0.3 * 4) / 4.0, int(horizon * 0.6 * 4) / 4.0 + 0.125]
    return case


def run_case(sh, case):
    r = Run(sh, case)
    f = r.execute()
    sh.case_done(case, f['overtakes'] > 0 or f['waited'] > 0)


def run(sh):
    n = 2000 if sh.tier == 'quick' else 400000
    pol = ['prng', 'fifo', 'lifo', 'const']
    for i in sh.share(n):
        rng = random.Random(core.stable_int(sh.seed, 'C12', i))
        run_case(sh, gen_case(rng, pol[i % 4]))
    # targets that are real processors in running lines (default hooks = shutdown / restore)
    from .. import engine_line
    engine_line.run_profile(sh, 'C12', 'faults', 200 if sh.tier == 'quick' else 20000, ('maint',),
                            nontrivial=lambda f: f.get('orders_completed', 0) > 0, prefix='line_',
                            overrides={'p_maintainer': 1.0})


def replay(sh, v):
    if v['case'].get('engine') == 'line':
        from .. import engine_line
        engine_line.replay_case(sh, 'C12', v['case'], ('maint',))
    else:
        run_case(sh, v['case'])
