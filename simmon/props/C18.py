"""C18 - action schedules follow their timetable.

Engine: a real System + ActionScheduler (harness subclass that logs
default_action).  The timetable is evaluated independently (left-fold float
sums of the durations, exactly as a user would compute them), registrations
are mirrored in a shadow registry updated when each register / unregister
call executes (so same-instant ordering against a transition is taken from the
dispatch log, not guessed).
"""
import random

from .. import core, instrument, ties
from ..instrument import action_name

SPEC = {
    'level': 'exploration',
    'rule': ('timetables of 1-6 entries with repeated states and integer / dyadic / decimal durations (0 allowed, '
             'total > 0), cyclical, non-cyclical and default-argument constructions, horizons up to 50 periods, '
             'objects registered before the run and registered / unregistered from events at and between transition '
             'times at priorities above and below the transition\'s, with and without override actions; every '
             'action round, schedule_update record and current_state is compared with the independently evaluated '
             'timetable and the shadow registry; a case is one timetable + registration script; non-trivial = at '
             'least two full cycles (or the non-cyclical end was reached) and a registration changed mid-run; also: None / \'\' / float states, chains of schedulers created during the initialisation pass (depth 1-4), refused second initialisations, integer clocks above 2**53, long histories (400 periods)'),
    'floors': {'quick': {'transitions_checked': 10000, 'action_calls_checked': 10000,
                         'midrun_registration_changes': 1000, 'noncyclical_ends_reached': 100},
               'thorough': {'transitions_checked': 300000, 'action_calls_checked': 300000,
                            'midrun_registration_changes': 30000, 'noncyclical_ends_reached': 3000}},
    'assumptions': ['the k-th transition time is the left-fold float sum of the preceding durations'],
    'timeout_s': {'quick': 900, 'thorough': 7200},
}


class StopRun(Exception):
    pass


class Obj:
    def __init__(self, name):
        self.name = name

    def __repr__(self):
        return self.name


def _NOOP_ACTION(obj, time, new_state):
    return None


class Run:
    def __init__(self, sh, case):
        core.load_library()
        from simprocesd.model import System
        from simprocesd.model.factory_floor import ActionScheduler
        instrument.install()
        self.sh, self.case = sh, case
        run = self

        class HSched(ActionScheduler):
            def default_action(self, obj, time, new_state):
                if instrument.PROBING:
                    return            # (a what-if copy of the model at work)
                run.calls.append(('default', obj, (obj, time, new_state)))
                run.state_seen_in_action(self.current_state, new_state, time)

        self.calls = []
        self.failed = False
        self.bus = instrument.Bus(ties.make_policy(case.get('tie', 'prng'), case.get('tie_seed', 0)))
        self.bus.attach(self)
        self.HSched = HSched
        self.sched = None
        with instrument.use_bus(self.bus):
            self.system = System()
            self.env = self.system.env
            if case.get('spawned'):
                # the monitored scheduler is created by another scheduler's start-up action, i.e. during the
                # initialisation pass of the first simulate(): it must start like any other
                run_ = self

                depth = int(case['spawned'])      # 1: created by a start-up action; 2+: by the start-up action of
                #                                    a scheduler that was itself created that way, ...
                self.spawners = []

                def make_spawner(level):
                    def spawn(sched, obj, time, state):
                        if level < depth:
                            if len(run_.spawners) == level:
                                make_spawner(level + 1)
                        elif run_.sched is None:
                            run_.make_scheduler()
                            for op in case['pre']:
                                run_.do_reg(op, False)
                    sp = ActionScheduler([(1000, 'only')], name=f'spawner{level}')
                    sp.register_object(sp, spawn)
                    run_.spawners.append(sp)
                make_spawner(1)
                sh.count(f'schedulers_created_at_depth_{depth}_of_the_initialisation_pass')
            elif not case.get('late'):
                self.make_scheduler()
        self.cyclical = True if case['cyclical'] is None else case['cyclical']
        self.objs = {n: Obj(n) for n in case['objects']}
        self.shadow = []          # [(obj, override?)] in registration order
        self.k = 0                # number of transitions seen
        self.t_next = 0.0         # expected time of transition k
        self.state = None
        self.rounds = 0
        self.midrun = 0
        self.end_reached = False
        self.storm = [None, 0]
        self.frozen_at = None
        self.was_frozen = False
        self.exp_log = []         # (time, state) of every judged round, as expected

    def make_scheduler(self):
        case = self.case
        tt = [tuple(x) for x in case['timetable']]
        cyc = case['cyclical']
        # (a quarter of the cases: a plain ActionScheduler whose default action the user assigns on the object after
        #  building it, instead of subclassing)
        assigned = core.stable_int('C18assign', case.get('tie_seed', 0), len(tt), str(tt[0])) % 4 == 0 \
            and not case.get('spawned')
        from simprocesd.model.factory_floor import ActionScheduler as _AS
        cls_ = _AS if assigned else self.HSched
        if cyc is None:
            self.sched = cls_(tt, name='sched')
        else:
            self.sched = cls_(tt, name='sched', is_cyclical=cyc)
        if assigned:
            run_, sched_ = self, self.sched

            class AssignedDefault:
                def __call__(self, obj, time, new_state):
                    if instrument.PROBING:
                        return
                    run_.calls.append(('default', obj, (obj, time, new_state)))
                    run_.state_seen_in_action(sched_.current_state, new_state, time)

                def __deepcopy__(self, memo):
                    return _NOOP_ACTION
            self.sched.default_action = AssignedDefault()
            sh_ = self.sh
            sh_.count('schedulers_with_a_default_action_assigned_on_the_object')

    def fail(self, name, msg):
        if not self.failed:
            self.failed = True
            self.sh.violation(name, msg, self.case, engine='sched', witness={'now': self.env.now})

    def __deepcopy__(self, memo):
        return self               # the harness is not part of the model

    def what_if(self, length):
        """The user tries something out on a deep copy of the whole System, continued on its own for a while next
        to the model (the instrumentation is silent meanwhile): the model proper must not notice."""
        import copy
        if self.sched is None or self.sched.env is None:
            return
        with instrument.probing():
            twin = copy.deepcopy(self.system)
            twin.env.run(length)
        self.sh.count('what_if_copies_continued_next_to_the_model')

    def override(self, sched, obj, time, state):
        if instrument.PROBING:
            return
        self.calls.append(('override', obj, (sched, obj, time, state)))
        self.state_seen_in_action(sched.current_state, state, time)

    def state_seen_in_action(self, current, new_state, time):
        # the state of the scheduler at any time is the state the timetable prescribes - also for code that
        # asks from inside an action
        if not (current is new_state or current == new_state):
            self.fail('current_state', f'inside an action at {time!r} the scheduler announces state {new_state!r} but '
                      f'its current_state is {current!r}')

    def do_reg(self, op, midrun):
        if self.sched is None:
            return
        kind, name, ovr = op
        if kind == 'what_if':
            self.what_if(ovr)
            return
        if kind == 'freeze':
            # the user freezes the scheduler's pending transition (Environment.pause_matching_events on its id) ...
            if self.frozen_at is None and self.sched.env is not None:
                self.env.pause_matching_events(asset_id=self.sched.id)
                self.frozen_at = self.env.now
                self.was_frozen = True
            return
        if kind == 'thaw':
            # ... and releases it later: the timetable resumes where it stood, shifted by the length of the pause
            if self.frozen_at is not None:
                self.env.unpause_matching_events(asset_id=self.sched.id)
                self.t_next = max(self.env.now, self.t_next + (self.env.now - self.frozen_at))
                self.frozen_at = None
                self.sh.count('timetables_resumed_after_a_pause')
            return
        if kind == 'reinit':
            # a second initialisation is refused by the library (AssertionError): it must change nothing
            if self.sched.env is None:
                return
            try:
                self.sched.initialize(self.env)
                self.fail('reinitialised', f'a second initialize() of the running scheduler at {self.env.now!r} was accepted')
            except AssertionError:
                self.sh.count('refused_second_initialisations')
            return
        obj = self.objs[name]
        if kind == 'register':
            got = self.sched.register_object(obj, self.override if ovr else None)
            want = not any(o is obj for o, _ in self.shadow)
            if want:
                self.shadow.append((obj, ovr))
        else:
            got = self.sched.unregister_object(obj)
            want = any(o is obj for o, _ in self.shadow)
            self.shadow = [(o, v) for o, v in self.shadow if o is not obj]
        if got is not want:
            self.fail('registration_return', f'{kind}({name}) returned {got!r}, expected {want!r}')
        if midrun and want:
            self.midrun += 1
            self.sh.count('midrun_registration_changes')

    # -- transition bookkeeping -------------------------------------------------------------------------
    def expect_round(self, now, where):
        """A transition (or the start-up) has just run: judge it."""
        tt = self.case['timetable']
        n = len(tt)
        if not self.cyclical and self.k >= n:
            # beyond the last state nothing may happen
            if self.calls:
                self.fail('action_after_end', f'{where}: actions {self.calls[:2]} after the non-cyclical schedule ended')
            self.end_reached = True
            self.sh.count('noncyclical_ends_reached')
            self.calls = []
            self.k += 1
            return
        idx = self.k % n
        dur, state = tt[idx]
        if now != self.t_next:
            self.fail('transition_time', f'{where}: transition {self.k} (state {state!r}) at {now!r}, timetable says '
                      f'{self.t_next!r}')
            return
        want = []
        for obj, ovr in self.shadow_at_dispatch:
            if ovr:
                want.append(('override', obj, (self.sched, obj, now, state)))
            else:
                want.append(('default', obj, (obj, now, state)))
        got = self.calls
        ok = len(got) == len(want) and all(g[0] == w[0] and g[1] is w[1] and len(g[2]) == len(w[2])
                                            and all((a is b) or (a == b) for a, b in zip(g[2], w[2]))
                                            for g, w in zip(got, want))
        if not ok:
            self.fail('action_round', f'{where}: transition {self.k} to {state!r} at {now!r}: actions '
                      f'{[(g[0], g[1].name, g[2][-2:]) for g in got]}, expected '
                      f'{[(w[0], w[1].name, w[2][-2:]) for w in want]}')
            return
        self.sh.count('action_calls_checked', len(want))
        self.sh.count('transitions_checked')
        if self.sched.current_state != state and not (self.sched.current_state is state):
            self.fail('current_state', f'{where}: current_state {self.sched.current_state!r}, expected {state!r}')
            return
        self.state = state
        self.exp_log.append((self.t_next, state))
        self.calls = []
        self.k += 1
        self.rounds += 1
        # the timetable is folded independently of the library's clock: previous instant + duration
        self.t_next = self.t_next + dur

    def dispatch(self, ev):
        if self.failed:
            raise StopRun()       # the verdict is in; a run that no longer follows its timetable may never end
        if action_name(ev.action) == '_update_state' and instrument.action_owner(ev.action) is self.sched:
            self.shadow_at_dispatch = list(self.shadow)
            if self.calls:
                self.fail('action_outside_transition', f'actions {self.calls[:2]} ran outside a state change')

    def dispatched(self, ev):
        if self.failed or self.sched is None:
            return
        if action_name(ev.action) == '_update_state' and instrument.action_owner(ev.action) is self.sched:
            # a timetable of non-zero total length prescribes a bounded number of transitions per instant
            if self.storm[0] == self.env.now:
                self.storm[1] += 1
                if self.storm[1] > 4 * len(self.case['timetable']) + 10:
                    self.fail('transition_storm', f'{self.storm[1]} transitions of the scheduler at the single instant '
                              f'{self.env.now!r}')
                    return
            else:
                self.storm = [self.env.now, 1]
        if action_name(ev.action) == '_update_state' and not ev.cancelled \
                and instrument.action_owner(ev.action) is self.sched:
            self.expect_round(self.env.now, 'transition event')
        elif self.calls:
            self.fail('action_outside_transition', f'actions {[(c[0], c[1].name) for c in self.calls[:3]]} ran at '
                      f'{self.env.now!r} outside a state change')
        if not self.failed and self.sched.current_state != self.state:
            self.fail('current_state', f'current_state {self.sched.current_state!r} at {self.env.now!r}, expected '
                      f'{self.state!r}')

    def before_advance(self, env, t):
        # a transition that is due must have happened before the clock leaves the instant
        if self.failed or self.sched is None:
            return
        n = len(self.case['timetable'])
        if (self.cyclical or self.k < n) and self.t_next <= env.now and self.k > 0 and self.frozen_at is None:
            self.fail('transition_missed', f'transition {self.k} was due at {self.t_next!r}; clock leaves {env.now!r}')

    def run_begin(self, env, t0, d):
        # initialisation has just happened: the start-up round
        if self.k == 0 and self.sched is not None:
            self.shadow_at_dispatch = list(self.shadow)
            self.expect_round(env.now, 'start-up')

    def execute(self):
        case = self.case
        with instrument.use_bus(self.bus):
            if not case.get('late') and not case.get('spawned'):
                for op in case['pre']:
                    self.do_reg(op, False)
            for t, prio, op in case['script']:
                def act(op=op):
                    if instrument.PROBING:
                        return        # (the same script event in a what-if copy: not the model's business)
                    self.do_reg(op, True)
                act.__name__ = 'script_' + op[0]
                self.env.schedule_event(t, -2, act, prio)
            try:
                for n, d in enumerate(case['horizon']):
                    self.system.simulate(d, print_summary=False)
                    if n == 0 and len(case['horizon']) > 1 and case.get('what_if_between'):
                        self.what_if(case['what_if_between'])
                    if n == 0 and case.get('late'):
                        # the scheduler is created between two simulate() calls: it starts at once
                        # (start-up round at this instant, nobody registered yet), its timetable counts from now
                        # (the first run started at 0: its end is known without asking the library)
                        t0 = d
                        if self.env.now != t0:
                            self.fail('transition_time', f'after simulate({d!r}) from 0 the clock reads {self.env.now!r}')
                        self.t_next = t0
                        self.t_start = t0
                        self.shadow_at_dispatch = []
                        self.make_scheduler()
                        self.expect_round(self.env.now, 'start-up of a scheduler created between two runs')
                        for op in case['pre']:
                            self.do_reg(op, False)
            except StopRun:
                pass
            except Exception as e:
                import traceback
                self.fail('crash', f'{type(e).__name__}: {e} {traceback.format_exc()[-1000:]}')
            if not self.failed:
                self.check_records()
        full_cycles = self.rounds // max(1, len(case['timetable']))
        return {'cycles': full_cycles, 'midrun': self.midrun, 'end': self.end_reached}

    def check_records(self):
        """schedule_update records == the independently folded timetable up to the horizon."""
        tt = self.case['timetable']
        n = len(tt)
        end = sum(self.case['horizon'])     # same float adds as consecutive runs
        end = self.env.now
        want = []
        t = getattr(self, 't_start', 0.0)
        k = 0
        if self.was_frozen:
            # the timetable was shifted by a pause: the rounds judged one by one, then the fold continues
            want = list(self.exp_log)
            t, k = self.t_next, self.k
            if self.frozen_at is not None:
                t = end + 1
        while t <= end and (self.cyclical or k < n):
            dur, state = tt[k % n]
            want.append((t, state))
            t = t + dur
            k += 1
            if k > 200000:
                break
        got = self.system.simulation_data.get('schedule_update', {}).get('sched', [])
        got = [tuple(x) for x in got]
        if got != want:
            i = next((j for j in range(min(len(got), len(want))) if got[j] != want[j]), min(len(got), len(want)))
            self.fail('schedule_records', f'schedule_update records differ from the timetable at index {i}: '
                      f'{got[i:i + 2]} vs {want[i:i + 2]} ({len(got)} records, {len(want)} expected)')
            return
        self.sh.count('records_compared', len(want))


def gen_case(rng, tie):
    n = rng.choice([1, 2, 2, 3, 3, 4, 5, 6])
    style = rng.choice(['int', 'dyadic', 'dyadic', 'decimal'])
    durs = {'int': [1, 2, 3, 5, 0], 'dyadic': [0.5, 1, 1.5, 0.25, 2, 0, 0.125], 'decimal': [0.1, 0.3, 0.7, 1.1, 2.2, 0]}[style]
    states = ['on', 'off', 'idle', True, False, 0, 1, None, '', 2.5]
    while True:
        tt = [[rng.choice(durs), rng.choice(states)] for _ in range(n)]
        if sum(d for d, s in tt) > 0:
            break
    if style == 'int' and rng.random() < 0.5:
        tt = [[int(d), s] for d, s in tt]
    total = sum(d for d, s in tt)
    cyc = rng.choice([True, True, False, None])
    periods = rng.choice([1, 2, 3, 5, 10, 50, 50, 400]) + rng.random()        # (400: long histories)
    horizon = min(400.0 if periods < 100 else 3000.0, total * periods)
    horizon = int(horizon * 8) / 8.0 + 0.125
    hs = [horizon]
    if rng.random() < 0.3:
        a = int(horizon * 4 * rng.random()) / 4.0
        if 0 < a < horizon:
            hs = [a, horizon - a]
    names = ['o1', 'o2', 'o3', 'o4']
    pre = []
    for nm in names:
        if rng.random() < 0.5:
            pre.append(['register', nm, rng.random() < 0.4])
    if rng.random() < 0.3 and pre:
        pre.append(list(pre[0]))            # duplicate registration
    # transition instants (approximate: used only to aim script times)
    ts = []
    t = 0.0
    for k in range(60):
        ts.append(t)
        t += tt[k % n][0]
    script = []
    for _ in range(rng.choice([0, 1, 2, 4, 8])):
        if rng.random() < 0.5 and style != 'decimal':
            t = rng.choice(ts)
        else:
            t = int(rng.random() * horizon * 8) / 8.0
        if t > horizon:
            continue
        kind = rng.choice(['register', 'register', 'unregister', 'reinit'])
        script.append([t, rng.choice([2, 10, 11, 11.5, 10.5, 12]), [kind, rng.choice(names), rng.random() < 0.4]])
    script.sort(key=lambda e: e[0])
    case = {'engine': 'sched', 'timetable': tt, 'cyclical': cyc, 'horizon': hs, 'objects': names, 'pre': pre,
            'script': script, 'tie': tie, 'tie_seed': rng.randrange(1 << 30)}
    if style == 'int' and all(isinstance(d, int) for d, _s in tt) and rng.random() < 0.35:
        # an integer tick clock above 2**53: the scheduler is created after simulate(BIG); int arithmetic is exact
        big = rng.choice([2 ** 53, 1_700_000_000_000_000_000, 2 ** 60 + 1])
        case['horizon'] = [big, int(min(300, total * rng.choice([2, 3, 7])) + 1)]
        case['script'] = []
        case['late'] = True
        case['bigint'] = True
    elif len(hs) == 2 and rng.random() < 0.5:
        case['late'] = True
    elif rng.random() < 0.25:
        case['spawned'] = rng.choice([1, 2, 3, 4])
    if style != 'decimal' and not case.get('bigint') and rng.random() < 0.25:
        # the pending transition is frozen for a while from outside and released (on the 1/8 grid: exact)
        h = sum(case['horizon'])
        t1 = int(rng.random() * h * 0.8 * 8) / 8.0
        if rng.random() < 0.4:
            t1 = rng.choice([x for x in ts if x <= h] or [t1])
        t2 = min(h, t1 + rng.choice([0.125, 0.5, 1.25, 3, 0]))
        pr = rng.choice([2, 10, 11, 11.5, 10.5, 12])
        case['script'] = sorted(case['script'] + [[t1, pr, ['freeze', 'o1', False]], [t2, pr, ['thaw', 'o1', False]]],
                                key=lambda e: e[0])
    if not case.get('bigint') and rng.random() < 0.2:
        # a deep copy of the System is continued on its own next to the model (from an event, or between two runs)
        h = sum(case['horizon'])
        ln = rng.choice([0.5, 2, 5, 2 * total + 0.25])
        if len(case['horizon']) > 1 and rng.random() < 0.5:
            case['what_if_between'] = ln
        else:
            t1 = int(rng.random() * h * 0.8 * 8) / 8.0
            case['script'] = sorted(case['script'] + [[t1, rng.choice([2, 10.5, 12]), ['what_if', 'o1', ln]]],
                                    key=lambda e: e[0])
    return case


def run_case(sh, case):
    r = Run(sh, case)
    f = r.execute()
    sh.case_done(case, (f['cycles'] >= 2 or f['end']) and f['midrun'] > 0)


def run(sh):
    n = 3000 if sh.tier == 'quick' else 800000
    pol = ['prng', 'fifo', 'lifo', 'const']
    for i in sh.share(n):
        rng = random.Random(core.stable_int(sh.seed, 'C18', i))
        run_case(sh, gen_case(rng, pol[i % 4]))


def replay(sh, v):
    run_case(sh, v['case'])
