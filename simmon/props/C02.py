"""C02 - parts are conserved: never duplicated, dropped or invented."""
from .. import engine_line

SPEC = {
    'level': 'exploration',
    'rule': ('generated production lines (sources incl. batch sources, handlers, processors with resource '
             'requirements, buffers, complementary gates, batchers, shared / re-entrant / nested groups, sinks, '
             'maintainers) with stimulus scripts (failures, shutdown/restore, work orders, block toggles, '
             'capacity and part-budget changes, rewiring) run through the real event queue under 4 tie-break '
             'policies; a census of every generated leaf part is taken after EVERY executed event; a case is '
             'one model+script+tie policy; non-trivial = at least one part was received by a sink and at least '
             'one of {part lost by a failure, batch traffic, group traversal, resource refusal} occurred; '
             'distinct = by hash of the specification; also: operations before the first simulate(), non-integral budgets, budgets withdrawn and given back, rework loops, deciders failing in the middle of a multi-part release, long-history models'),
    'floors': {'quick': {'census_checks': 20000, 'parts_received': 1000, 'parts_lost': 20},
               'thorough': {'census_checks': 400000, 'parts_received': 20000, 'parts_lost': 400}},
    'assumptions': ['models are well-posed (DESIGN 2.8)', 'parts are created by PartGenerators only'],
    'timeout_s': {'quick': 900, 'thorough': 7200},
}

MONITORS = ('conserve',)


def nontrivial(f):
    return f.get('received', 0) > 0 and (f.get('lost_parts', 0) > 0 or f.get('batch_traffic', 0) > 0)


def run(sh):
    n = 320 if sh.tier == 'quick' else 60000
    engine_line.run_profile(sh, 'C02', 'general', n // 2, MONITORS, nontrivial)
    engine_line.run_profile(sh, 'C02', 'faults', n // 4, MONITORS, nontrivial)
    engine_line.run_profile(sh, 'C02', 'routing', n // 4, MONITORS, nontrivial)
    # operating schedules that list the sources too (their block_input is closed and reopened while a finished part
    # waits in them, in front of slow or blocked stations)
    engine_line.run_profile(sh, 'C02', 'general', n // 4, MONITORS, nontrivial, prefix='blocked_sources_',
                            overrides={'p_block_source': 0.8}, tag='blocksrc')
    # queue-heavy lines with rework loops made of pass-through devices only (buffer -> gate -> the same buffer): a part
    # re-enters the buffer it is leaving within one hand-over
    engine_line.run_profile(sh, 'C02', 'buffers', n // 4, MONITORS, nontrivial, prefix='rework_loops_',
                            overrides={'stage_w': {'buffer': 5, 'rework': 4, 'processor': 2, 'handler': 2}}, tag='rework')
    # user code (a gate's decider) failing in the middle of a multi-part release; the caller carries on
    from .. import core, modelgen
    pol = ['prng', 'fifo', 'lifo', 'const']
    for i in sh.share(max(24, n // 10)):
        seed = core.stable_int(sh.seed, 'C02', 'errbuf', i) % (1 << 40)
        engine_line.run_spec(sh, 'C02', modelgen.generate_error_buffer(seed, pol[i % 4]), MONITORS, nontrivial,
                             prefix='error_path_')
    # scale: more than a thousand parts released by one buffer in one event
    for i in sh.share(2 if sh.tier == 'quick' else 12):
        engine_line.run_spec(sh, 'C02', modelgen.generate_mass_release(i, pol[i % 4]), MONITORS, nontrivial,
                             prefix='mass_release_')


def replay(sh, v):
    engine_line.replay_case(sh, 'C02', v['case'], MONITORS)
