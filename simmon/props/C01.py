"""C01 - events run in time-then-priority order; the clock never goes backwards."""
import itertools
import random

from .. import core, engine_evq, ties

SPEC = {
    'level': 'exploration',
    'rule': ('(a) operation sequences on the real Environment (schedule incl. attempts in the past, also by one ulp or one part in 10^10, '
             'pause/unpause/cancel, step, run split into consecutive runs, operations nested inside event '
             'actions, built-in and fractional priorities) judged online by the reference queue model: all '
             'sequences up to length L (5 quick / 6 thorough) over a 10-op order-centric alphabet under '
             'fifo and lifo tie-breaks, then random sequences of length 10-80 under all tie policies, a '
             'third of them with decimal (non-representable) times and pauses aimed at due instants; '
             '(b) whole generated production lines (all device kinds, faults, maintenance) run with the same '
             'queue monitor attached; non-trivial = at least one tie group (>=2 live events with equal time '
             'and priority at dispatch) or an insertion from inside an action or an unpause that shifted an '
             'event; distinct = by hash of the case'),
    'floors': {'quick': {'dispatches_checked': 1000, 'tie_groups': 50, 'run_windows_checked': 500,
                         'past_rejected': 50, 'resumes_rounding_below_now': 5, 'second_execute_checked': 1000, 'line_dispatches_checked': 10000, 'line_tie_groups': 1000},
               'thorough': {'dispatches_checked': 100000, 'tie_groups': 5000, 'run_windows_checked': 10000,
                            'past_rejected': 500, 'resumes_rounding_below_now': 100, 'second_execute_checked': 100000, 'line_dispatches_checked': 200000, 'line_tie_groups': 20000}},
    'exhaustive_key': 'exhaustive_sequences',
    'exhaustive_text': 'all sequences up to the length bound over the 10-op alphabet (after the fixed prefix)',
    'assumptions': ['priorities are above TERMINATE', 'step()/run() are not re-entered from inside an action',
                    'pause/cancel never target asset id -1'],
    'timeout_s': {'quick': 600, 'thorough': 3600},
}

PREFIX = [['sched', 1, 2, 5, None], ['sched', 2, 1, 5, None], ['run', 1]]
ALPHABET = [['sched', 1, 0, 5, None], ['sched', 1, 1, 5, None], ['sched', 2, 1, 6.5, None],
            ['sched', 2, 1, 5, [['sched', 1, 0, 7, None]]],
            ['sched', 1, 1, 4, [['pause', 2]]],
            ['unpause', 2], ['step'], ['run', 1], ['sched', 3, -0.5, 5, None], ['sched', 3, 'eps', 5, None]]
SUFFIX = [['run', 3], ['unpause', 2], ['run', 6]]


def one(sh, ops, tie, tie_seed, kind, decimal=False):
    case = {'engine': 'evq', 'ops': ops, 'tie': tie, 'tie_seed': tie_seed}
    if decimal:
        case['decimal'] = True
    f = engine_evq.run_case(sh, case, 'C01')
    sh.case_done(case, f['tie_groups'] > 0 or f['nested'] > 0 or f['shifted'] > 0)
    sh.count(kind)


def run(sh):
    L = 5 if sh.tier == 'quick' else 6
    nrand = 2400 if sh.tier == 'quick' else 300000
    k = 0
    for length in range(1, L + 1):
        for seq in itertools.product(range(len(ALPHABET)), repeat=length):
            k += 1
            if k % sh.n != sh.idx:
                continue
            ops = PREFIX + [ALPHABET[i] for i in seq] + SUFFIX
            one(sh, ops, 'fifo' if k % 2 else 'lifo', 0, 'exhaustive_sequences')
    for i in sh.share(nrand):
        rng = random.Random(core.stable_int(sh.seed, 'C01', i))
        decimal = i % 3 == 0
        ops = engine_evq.random_ops(rng, decimal=decimal, aim_pauses=decimal)
        tie = ties.POLICIES[i % 4]
        one(sh, ops, tie, rng.randrange(1 << 30), 'decimal_sequences' if decimal else 'random_sequences',
            decimal)
    line_leg(sh)


def line_leg(sh):
    try:
        from .. import engine_line
    except ImportError:
        return
    engine_line.run_profile(sh, 'C01', profile='general',
                            n_models=200 if sh.tier == 'quick' else 20000,
                            monitors=('queue',), prefix='line_')


def replay(sh, v):
    case = v['case']
    if case.get('engine') == 'line':
        from .. import engine_line
        engine_line.replay_case(sh, 'C01', case, monitors=('queue',))
    else:
        engine_evq.run_case(sh, case, 'C01')
