"""C01 - events run in time-then-priority order; the clock never goes backwards."""
import itertools
import random

from .. import core, engine_evq, ties

SPEC = {
    'level': 'exploration',
    'rule': ('(a) operation sequences on the real Environment (schedule incl. attempts in the past, also by one ulp or one part in 10^10, '
             'pause/unpause/cancel, step, run split into consecutive runs, operations nested inside event '
             'actions, built-in and fractional priorities) judged online by the reference queue model: all '
             'sequences up to length L (5 quick / 6 thorough) over a 10-op order-centric alphabet under '
             'fifo and lifo tie-breaks, then random sequences of length 10-80 under all tie policies, a '
             'third of them with decimal (non-representable) times and pauses aimed at due instants; '
             '(b) whole generated production lines (all device kinds, faults, maintenance) run with the same '
             'queue monitor attached; non-trivial = at least one tie group (>=2 live events with equal time '
             'and priority at dispatch) or an insertion from inside an action or an unpause that shifted an '
             'event; distinct = by hash of the case; also: integer-tick clocks above 2**53 (queue sequences and System.simulate at System level), actions that fail (HarnessError / KeyboardInterrupt) under a caller that drives with step() and catches, zero-length simulate() calls, and a System-level end check after every simulate(d)'),
    'floors': {'quick': {'dispatches_checked': 1000, 'tie_groups': 50, 'run_windows_checked': 500,
                         'past_rejected': 50, 'resumes_rounding_below_now': 5, 'second_execute_checked': 1000, 'line_dispatches_checked': 10000, 'line_tie_groups': 1000},
               'thorough': {'dispatches_checked': 100000, 'tie_groups': 5000, 'run_windows_checked': 10000,
                            'past_rejected': 500, 'resumes_rounding_below_now': 100, 'second_execute_checked': 100000, 'line_dispatches_checked': 200000, 'line_tie_groups': 20000}},
    'exhaustive_key': 'exhaustive_sequences',
    'exhaustive_text': 'all sequences up to the length bound over the 10-op alphabet (after the fixed prefix)',
    'assumptions': ['priorities are above TERMINATE', 'step()/run() are not re-entered from inside an action',
                    'run() executes events through Environment.step() (the unit the queue monitor observes)',
                    'every queued event is created by the Event constructor (the creation hook)',
                    'pause/cancel never target asset id -1'],
    'timeout_s': {'quick': 600, 'thorough': 3600},
}

PREFIX = [['sched', 1, 2, 5, None], ['sched', 2, 1, 5, None], ['run', 1]]
ALPHABET = [['sched', 1, 0, 5, None], ['sched', 1, 1, 5, None], ['sched', 2, 1, 6.5, None],
            ['sched', 2, 1, 5, [['sched', 1, 0, 7, None]]],
            ['sched', 1, 1, 4, [['pause', 2]]],
            ['unpause', 2], ['step'], ['run', 1], ['sched', 3, -0.5, 5, None], ['sched', 3, 'eps', 5, None]]
SUFFIX = [['run', 3], ['unpause', 2], ['run', 6]]


def one(sh, ops, tie, tie_seed, kind, decimal=False):
    case = {'engine': 'evq', 'ops': ops, 'tie': tie, 'tie_seed': tie_seed}
    if decimal:
        case['decimal'] = True
    f = engine_evq.run_case(sh, case, 'C01')
    sh.case_done(case, f['tie_groups'] > 0 or f['nested'] > 0 or f['shifted'] > 0)
    sh.count(kind)


def run(sh):
    L = 5 if sh.tier == 'quick' else 6
    nrand = 2400 if sh.tier == 'quick' else 300000
    k = 0
    for length in range(1, L + 1):
        for seq in itertools.product(range(len(ALPHABET)), repeat=length):
            k += 1
            if k % sh.n != sh.idx:
                continue
            ops = PREFIX + [ALPHABET[i] for i in seq] + SUFFIX
            one(sh, ops, 'fifo' if k % 2 else 'lifo', 0, 'exhaustive_sequences')
    for i in sh.share(nrand):
        rng = random.Random(core.stable_int(sh.seed, 'C01', i))
        decimal = i % 3 == 0
        bigint = i % 12 == 5
        mass = i % 40 == 9
        ops = engine_evq.random_ops(rng, decimal=decimal, aim_pauses=decimal or bigint, bigint=bigint, mass=mass)
        if mass:
            sh.count('mass_sequences')
        if bigint:
            sh.count('integer_clock_sequences')
        tie = ties.POLICIES[i % 4]
        one(sh, ops, tie, rng.randrange(1 << 30), 'decimal_sequences' if decimal else 'random_sequences',
            decimal)
    for i in sh.share(160 if sh.tier == 'quick' else 8000):
        system_clock_case(sh, i)
    line_leg(sh)


def system_clock_case(sh, i):
    """System.simulate() with an integer tick clock (also far above 2**53, where a float cannot hold the
    times): every run ends with the clock at exactly t0 + d and has executed exactly the events due by then."""
    from simprocesd.model import System
    rng = random.Random(core.stable_int(sh.seed, 'C01sys', i))
    base = rng.choice([0, 0, 2 ** 53, 1_700_000_000_000_000_000, 2 ** 60 + 1])
    offs = sorted(rng.sample(range(1, 60), rng.randint(3, 10)))
    durs = []
    if base:
        durs.append(base + rng.choice(offs))
    while sum(durs) - base < 70:
        durs.append(rng.choice([0, 1, 2, 3, 7, 12, 25]))
    if i % 4 == 0 and base == 0:
        durs = [float(d) for d in durs]      # float durations on a small int clock
    case = {'engine': 'system_clock', 'base': base, 'offsets': offs, 'durations': durs}
    ran = []
    try:
        system = System()
        env = system.env
        for k, o in enumerate(offs):
            env.schedule_event(base + o, -2, (lambda o=o: ran.append((o, env.now))), rng.choice([2, 5, 7.5, 11]))
        t = 0
        for d in durs:
            system.simulate(d, print_summary=False)
            t = t + d
            if env.now != t:
                sh.violation('run_window', f'System.simulate({d!r}) on an integer clock: the clock reads {env.now!r}, '
                             f'expected exactly {t!r}', case, engine='system_clock')
                return
            due = [o for o in offs if base + o <= t]
            if [o for o, _ in ran] != due or any(now != base + o for o, now in ran):
                sh.violation('run_window', f'after System.simulate up to {t!r}: events that ran (offset, clock) {ran}, '
                             f'due by then {due} (base {base})', case, engine='system_clock')
                return
            sh.count('system_level_integer_clock_runs')
    except Exception as e:
        import traceback
        sh.violation('order', f'library raised {type(e).__name__}: {e}', case,
                     witness={'traceback': traceback.format_exc()[-1200:]}, engine='system_clock')
        return
    sh.case_done(case, base > 0)


def line_leg(sh):
    try:
        from .. import engine_line
    except ImportError:
        return
    engine_line.run_profile(sh, 'C01', profile='general',
                            n_models=200 if sh.tier == 'quick' else 20000,
                            monitors=('queue',), prefix='line_')
    # the same horizon simulated in many short slices (most of them with nothing due inside), on lines whose
    # failures leave cancelled events in the queue: the clock never steps back over a slice it has already covered
    from .. import core, modelgen
    pol = ['prng', 'fifo', 'lifo', 'const']
    for i in sh.share(48 if sh.tier == 'quick' else 4000):
        seed = core.stable_int(sh.seed, 'C01', 'slices', i) % (1 << 40)
        spec = modelgen.generate(seed, 'faults', tie=pol[i % 4])
        total = min(sum(spec['horizon']), 30.0)
        step = [0.125, 0.25, 0.375][i % 3]
        spec['horizon'] = [step] * int(total / step)
        spec.pop('between', None)
        engine_line.run_spec(sh, 'C01', spec, ('queue',), prefix='slices_')


def replay(sh, v):
    case = v['case']
    if case.get('engine') == 'system_clock':
        print('system-clock scenarios are replayed by seed: VERIF_SEED and the case index')
    elif case.get('engine') == 'line':
        from .. import engine_line
        engine_line.replay_case(sh, 'C01', case, monitors=('queue',))
    else:
        engine_evq.run_case(sh, case, 'C01')
