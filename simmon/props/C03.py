"""C03 - no lost wake-up: a part that can move does move."""
from .. import core, engine_line, modelgen

SPEC = {
    'level': 'exploration',
    'rule': ('generated lines biased to blocking (tiny buffers, slow sinks, scarce pools with capacity '
             'schedules, failures+restores, work orders, block toggles, budget adjustments, mid-run rewiring) '
             'under 4 tie-break policies; at every instant at which the clock is about to advance, and after '
             'every run, each ready part is offered on a deep copy of the system to every downstream '
             'neighbour with the real give_part; logical budgets bound events per run and per instant; a case '
             'is one model+script+tie policy; non-trivial = at least one ready part was genuinely refused on a '
             'copy and later left its holder (a real block -> wake-up cycle); also: a one-decimal (cycle, delay) sweep through a delay buffer, refused set_upstream() calls, late-created group paths, callbacks that fail once under a catching caller, long-history models'),
    'floors': {'quick': {'refused_offers': 2000, 'wakeups': 300, 'instants_probed': 2000},
               'thorough': {'refused_offers': 40000, 'wakeups': 6000, 'instants_probed': 40000}},
    'assumptions': ['gate predicates are pure functions of the part (library warning)',
                    'unbounded "eventually" is restated as: nothing movable is left when virtual time advances'],
    'timeout_s': {'quick': 900, 'thorough': 7200},
}

MONITORS = ('lostwake',)


def nontrivial(f):
    return f.get('wakeups', 0) > 0


def run(sh):
    n = 400 if sh.tier == 'quick' else 16000
    engine_line.run_profile(sh, 'C03', 'blocking', n // 2, MONITORS, nontrivial)
    engine_line.run_profile(sh, 'C03', 'general', n // 4, MONITORS, nontrivial)
    engine_line.run_profile(sh, 'C03', 'resources', n // 4, MONITORS, nontrivial)
    engine_line.run_profile(sh, 'C03', 'resfaults', n // 2, MONITORS, nontrivial)
    # group paths created while the simulation runs (upstream at creation, downstream afterwards)
    engine_line.run_profile(sh, 'C03', 'blocking', n // 4, MONITORS, nontrivial, prefix='latepath_',
                            overrides={'p_late_path': 2.0}, tag='latepath')
    from ..modelgen import DECIMAL
    engine_line.run_profile(sh, 'C03', 'blocking', n // 4, MONITORS, nontrivial, prefix='decimal_', overrides=DECIMAL,
                            tag='decimal')
    # paths of a shared cell whose inputs are closed while their parts are still inside, in front of slow stations
    for i in sh.share(60 if sh.tier == 'quick' else 2000):
        seed = core.stable_int(sh.seed, 'C03', 'blocked_paths', i) % (1 << 40)
        engine_line.run_spec(sh, 'C03', modelgen.generate_blocked_paths(seed, ['prng', 'fifo', 'lifo', 'const'][i % 4]),
                             MONITORS, nontrivial, prefix='blocked_paths_')
    # one-decimal (cycle, delay) sweep through a delay buffer
    pol = ['prng', 'fifo', 'lifo', 'const']
    for i in sh.share(270 if sh.tier == 'quick' else 810):
        engine_line.run_spec(sh, 'C03', modelgen.generate_decimal_buffer(i, pol[i % 4]), MONITORS, nontrivial,
                             prefix='decimal_sweep_')


def replay(sh, v):
    engine_line.replay_case(sh, 'C03', v['case'], MONITORS)
