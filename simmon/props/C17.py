"""C17 - batching keeps order and exact batch sizes."""
from .. import engine_line

SPEC = {
    'level': 'exploration',
    'rule': ('generated lines rich in batchers (single-part mode and sizes 1-6) fed by single parts and batches '
             'of sizes 0-7 (empty and non-dividing included), chains unbatch -> process -> rebatch, blocking '
             'downstreams, 4 tie-break policies; after EVERY event, for each batcher: emitted leaves + leaves '
             'inside (output, batch under construction, rest of the input) == leaves arrived, in order; emitted '
             'batch sizes; acceptance only when empty (judged on the previous event boundary); buffers and sinks count every leaf (level() == stored leaf parts, sink counters); every held '
             'batch\'s routing history is a suffix of each contained part\'s; a case is one model; non-trivial = '
             'at least one output emitted by a batcher and a batch received somewhere; also: user-defined Batch subclasses, hand-made parts added to batches by callbacks, refused history removals, and the rule that a part\'s routing history never loses entries; the rest of a lot scrapped by the inspection station during the batcher\'s hand-over; buffer levels as read inside receive callbacks; pallets of boxes (batches of batches) taken apart in two steps, order and sizes judged on direct members, the history rule on every part at every depth'),
    'floors': {'quick': {'batcher_outputs': 3500, 'batcher_checks': 30000, 'empty_batches_consumed': 20,
                         'batch_history_checks': 5000, 'pallets_nested_batch_history_checks': 300},
               'thorough': {'batcher_outputs': 100000, 'batcher_checks': 600000, 'empty_batches_consumed': 400,
                            'batch_history_checks': 100000, 'pallets_nested_batch_history_checks': 6000}},
    'assumptions': ['a PartBatcher is never placed inside a group (DESIGN 2.8)'],
    'timeout_s': {'quick': 900, 'thorough': 7200},
}
MONITORS = ('batching', 'conserve', 'buffers')


def nontrivial(f):
    return f.get('batcher_outputs', 0) > 0


def run(sh):
    n = 400 if sh.tier == 'quick' else 60000
    engine_line.run_profile(sh, 'C17', 'batching', n, MONITORS, nontrivial)
    # hand-made (never initialised) parts added to finished batches by a callback; no value callbacks here, which
    # would need an initialised part
    engine_line.run_profile(sh, 'C17', 'batching', n // 4, MONITORS, nontrivial, prefix='inserts_',
                            overrides={'p_insert': 0.6, 'p_value_cb': 0, 'p_batch_source': 0.9}, tag='inserts')

    # pallets of boxes: batches whose members are batches, taken apart in two steps; the history rule reaches every
    # part at every depth (buffers and sinks count direct members there, so only the batching monitor runs)
    engine_line.run_profile(sh, 'C17', 'batching', n // 3 if sh.tier == 'quick' else n // 8, ('batching',), nontrivial,
                            prefix='pallets_',
                            overrides={'p_nested_batch': 1.0, 'p_batch_source': 0.95, 'p_insert': 0,
                                       'stage_w': {'batcher': 7, 'buffer': 2, 'gates': 2, 'handler': 2, 'processor': 2}},
                            tag='nested')
    # generators that re-use one scratch list for every Batch, in front of a PartBatcher that unpacks it
    from .. import core, modelgen
    pol = ['prng', 'fifo', 'lifo', 'const']
    for i in sh.share(max(16, n // 10)):
        seed = core.stable_int(sh.seed, 'C17', 'scratch', i) % (1 << 40)
        engine_line.run_spec(sh, 'C17', modelgen.generate_scratch_batches(seed, pol[i % 4]), MONITORS, nontrivial,
                             prefix='scratch_')
    # the rest of a lot scrapped by the inspection station while the batcher hands a part of it over (the census does
    # not know about scrapped parts, so only the batching monitor runs)
    for i in sh.share(max(32, n // 6)):
        seed = core.stable_int(sh.seed, 'C17', 'scrap', i) % (1 << 40)
        engine_line.run_spec(sh, 'C17', modelgen.generate_scrap_lots(seed, pol[i % 4]), ('batching',), nontrivial,
                             prefix='scrap_')
    # scale: output batches of 256 .. 1000 parts
    for i in sh.share(5 if sh.tier == 'quick' else 30):
        engine_line.run_spec(sh, 'C17', modelgen.generate_big_batches(i, pol[i % 4]), MONITORS, nontrivial,
                             prefix='big_batches_')


def replay(sh, v):
    engine_line.replay_case(sh, 'C17', v['case'], MONITORS)
