"""C11 - a processor works only while holding exactly the resources it requires."""
from .. import engine_line

SPEC = {
    'level': 'exploration',
    'rule': ('generated lines in which 2-9 processors (also inside shared groups) compete for 1-3 pools of '
             'capacity 1-3 with single and multi-resource requirements, capacity schedules that drop and rise, '
             'failures, work orders, block toggles, under 4 tie-break policies; after EVERY event: a processor '
             'with a part in process holds exactly its positive requirements (also while shut down for '
             'maintenance), holdings are either nothing or exactly the requirements, a processor that just '
             'failed holds nothing, each pool\'s usage equals the summed requirements of the holders; at every '
             'clock advance no operational idle processor holds anything; a case is one model; non-trivial = '
             'some processor waited for resources and a reservation was both kept across consecutive parts and '
             'released; also: pass-through devices feeding parallel pool users, queues in front of zero-cycle processors in series on one pool, unlimited and huge pools'),
    'floors': {'quick': {'holder_checks': 20000, 'in_process_checks': 5000, 'in_process_checks_while_shut_down': 100,
                         'reservation_kept_across_consecutive_parts': 50, 'reservation_released': 500,
                         'idle_checks': 2000},
               'thorough': {'holder_checks': 400000, 'in_process_checks': 100000,
                            'in_process_checks_while_shut_down': 2000,
                            'reservation_kept_across_consecutive_parts': 1000, 'reservation_released': 10000,
                            'idle_checks': 40000}},
    'assumptions': ['all reservations in the generated lines are made by processors'],
    'timeout_s': {'quick': 900, 'thorough': 7200},
}
MONITORS = ('holdings',)


def nontrivial(f):
    return f.get('res_waiting', 0) > 0 and f.get('res_released', 0) > 0


def run(sh):
    n = 400 if sh.tier == 'quick' else 60000
    engine_line.run_profile(sh, 'C11', 'resources', n // 2, MONITORS, nontrivial)
    engine_line.run_profile(sh, 'C11', 'resfaults', n // 2, MONITORS, nontrivial)


def replay(sh, v):
    engine_line.replay_case(sh, 'C11', v['case'], MONITORS)
