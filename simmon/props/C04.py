"""C04 - serial-line timing equals the blocking-after-service recurrence, exactly."""
import random
from fractions import Fraction as F

from .. import core, instrument, ties
from ..refs import serial

SPEC = {
    'level': 'exploration',
    'rule': ('random serial lines source -> (handler|processor|buffer)* -> sink of 0-8 stations with cycle '
             'times / delays on the 1/8 grid (incl. 0), buffer capacities 1-6 / unbounded, source budgets '
             '1-50 / unbounded, horizons 5-300, each run under all 5 tie-break policies; every recorded '
             'arrival time of every station and every supply time of the source is compared (==, Fractions) '
             'with an independent max-plus reference; plus the two documented serial examples rebuilt from '
             'their parameters; a case is one line; non-trivial = some station was blocked at least once '
             '(the downstream term of the recurrence decided a departure) or starved; distinct = by hash of '
             'the line parameters; also: budget top-ups (from events and between runs, aimed at the production interval of the spare part), non-integral budgets, exactly representable extreme ratios (delay 2**30, clock near 2**30), finish callbacks that fail once under a catching caller'),
    'floors': {'quick': {'arrival_times_compared': 10000, 'blocked_departures': 500},
               'thorough': {'arrival_times_compared': 400000, 'blocked_departures': 20000}},
    'assumptions': ['exactness is claimed on the exactly representable (dyadic) grid only, as the property states'],
    'timeout_s': {'quick': 900, 'thorough': 7200},
}

CTS = [0, 0, 0.125, 0.25, 0.5, 0.5, 1, 1, 1.5, 2, 3, 0.75]


def zeno(st):
    """ct-0 source with unbounded budget must meet a finite-capacity positive-time station."""
    src = st[0]
    if src['ct'] > 0 or src.get('budget') is not None:
        return False
    for s in st[1:]:
        if s['kind'] == 'buffer':
            if s.get('cap') is None:
                return True
            continue
        if s['ct'] > 0:
            return False
    return True


def gen_line(rng):
    while True:
        n = rng.choice([0, 1, 1, 2, 2, 3, 3, 4, 5, 6, 8])
        st = [{'kind': 'source', 'ct': rng.choice(CTS), 'budget': rng.choice([None, None, 1, 3, 7, 20, 50, 2.5, 0.7 / 0.1, 2.1 / 0.3])}]
        for _ in range(n):
            k = rng.choice(['handler', 'processor', 'buffer'])
            if k == 'buffer':
                st.append({'kind': 'buffer', 'cap': rng.choice([1, 1, 2, 3, 4, 6, None]),
                           'delay': rng.choice([0, 0, 0, 0.5, 1, 2, 0.125])})
            else:
                st.append({'kind': k, 'ct': rng.choice(CTS)})
        st.append({'kind': 'sink', 'ct': rng.choice([0, 0, 0, 0.5, 1, 2, 0.25])})
        if not zeno(st):
            break
    horizon = rng.choice([5, 10, 17.5, 30, 60, 100, 300])
    falsy = rng.random() < 0.15
    x = rng.random()
    if x > 0.995:
        # scale: more than a thousand parts maturing in one buffer at the same instant and leaving it in one event
        nparts = rng.choice([1100, 1500])
        st = [{'kind': 'source', 'ct': 0, 'budget': nparts},
              {'kind': 'buffer', 'cap': None, 'delay': rng.choice([0.5, 1, 2])},
              rng.choice([{'kind': 'buffer', 'cap': None, 'delay': 0}, {'kind': 'buffer', 'cap': None, 'delay': 0.5}]),
              {'kind': 'sink', 'ct': 0}]
        if rng.random() < 0.5:
            st.pop(2)
        return {'stations': st, 'horizon': 6.0, 'scale': 'mass_release'}
    if x < 0.06:
        # extreme ratios on exactly representable values: a delay of 2**30 (or 2**11 with a 2**-21 source cycle) -
        # a relative tolerance where one unit in the last place is meant would let parts go early
        big, small = rng.choice([(2.0 ** 30, rng.choice([0.25, 0.5, 1])), (2048.0, 2.0 ** -21)])
        st[0]['ct'] = small
        st[0]['budget'] = rng.choice([2, 3, 5, 8])
        st.insert(rng.randrange(1, len(st)), {'kind': 'buffer', 'cap': rng.choice([None, 2, 3, 8]), 'delay': big})
        return {'stations': st, 'horizon': big + rng.choice([1, 4, 16]), 'scale': 'huge_delay'}
    if x < 0.12:
        # the whole line works at a clock value near 2**30: the budget only arrives then
        T = 2.0 ** 30 + rng.randrange(0, 64) / 8.0
        st[0]['budget'] = 0
        st[0]['topups'] = [[T, rng.choice([3, 8, 20])]]
        st[0]['topup_mode'] = rng.choice(['event', 'between'])
        return {'stations': st, 'horizon': T + rng.choice([10, 30]), 'scale': 'late_clock'}
    for s_ in st[1:-1]:
        if s_['kind'] == 'processor' and s_['ct'] > 0 and rng.random() < 0.08:
            # user code failing inside the finish callback of the k-th part; the caller catches the exception that
            # comes out of simulate() and carries on to the same horizon
            s_['raise_at'] = rng.choice([1, 2, 3, 5])
    if st[0]['budget'] is not None and st[0]['budget'] <= 7 and float(st[0]['budget']).is_integer() and rng.random() < 0.5:
        # part-budget top-ups: from a user event at T, or by ordinary code between two simulate() calls split at T;
        # aimed at the interval in which the exhausted source is still making its spare part
        tops = []
        t_ex = st[0]['budget'] * max(st[0]['ct'], 0.125)
        for _ in range(rng.choice([1, 1, 2])):
            T = rng.choice([t_ex, t_ex + st[0]['ct'] / 2.0, t_ex + st[0]['ct'], t_ex + 0.125,
                            rng.randrange(1, 160) / 8.0, rng.randrange(1, 160) / 8.0])
            T = int(T * 8) / 8.0
            if 0 < T < horizon:
                tops.append([T, rng.choice([1, 2, 3, 5])])
        if tops:
            if int(tops[0][0] * 8) % 2 == 0:
                # an empty delivery (quantity 0) shortly before the first real one, and another with the last one: it
                # must change nothing (no draw from the stream: the other lines stay what they were)
                first = min(t for t, m in tops)
                tops.append([max(0.125, first - 0.125), 0])
                tops.append([max(t for t, m in tops), 0])
            st[0]['topups'] = sorted(tops)
            st[0]['topup_mode'] = rng.choice(['event', 'between'])
    # keep event counts bounded
    rate = max(0.125, max(s.get('ct', 0) for s in st))
    if horizon / rate * len(st) > 6000:
        horizon = max(5, min(horizon, 6000 * rate / len(st)))
        horizon = int(horizon * 8) / 8.0
    out = {'stations': st, 'horizon': horizon}
    if rng.random() < 0.15:
        out['scratch_at'] = rng.randrange(1, max(2, int(horizon * 8))) / 8.0
    if falsy:
        out['falsy_parts'] = True
    return out


class HarnessError(Exception):
    pass


class RaiseAt:
    """Finish callback that fails once, on the k-th part."""

    def __init__(self, k):
        self.k, self.n = k, 0

    def __call__(self, dev, part):
        self.n += 1
        if self.n == self.k:
            raise HarnessError('user callback failed')


def sim_to(system, t_end, counter):
    """simulate() up to t_end, carrying on after exceptions thrown by user callbacks."""
    import contextlib
    import io
    for _ in range(50):
        try:
            with contextlib.redirect_stdout(io.StringIO()):
                system.simulate(t_end - system.env.now, print_summary=False)
            # (a run cut short by an exception leaves its end marker in the queue; a later run that reaches the
            # marker stops there - the caller simply asks again until the clock is where it should be)
            if system.env.now >= t_end or not counter[0]:
                return
        except HarnessError:
            counter[0] += 1


class Scratch:
    def __init__(self, ids):
        self.ids = ids
        self.__name__ = 'scratch_environment'

    def __call__(self):
        instrument.scratch_environment(self.ids)


class TopUp:
    def __init__(self, src, m):
        self.src, self.m = src, m
        self.__name__ = 'top_up'

    def __call__(self):
        self.src.adjust_part_count(self.m)


RAISED = [0]
_TRAYGEN = []


def tray_generator():
    """A generator of falsy parts: a user's Part subclass whose __len__ is 0 (an empty tray)."""
    if not _TRAYGEN:
        from simprocesd.model.factory_floor import Part, PartGenerator

        class Tray(Part):
            def __len__(self):
                return 0

        class TrayGenerator(PartGenerator):
            def generate_part_helper(self, part_name, part_number):
                return Tray(name=part_name)
        _TRAYGEN.append(TrayGenerator)
    return _TRAYGEN[0]('tray')


def run_line(line, tie, tie_seed):
    from simprocesd.model import System
    from simprocesd.model.factory_floor import Source, PartHandler, PartProcessor, Buffer, Sink
    instrument.install()
    bus = instrument.Bus(ties.make_policy(tie, tie_seed))
    with instrument.use_bus(bus):
        system = System()
        devs = []
        prev = None
        for j, s in enumerate(line['stations']):
            nm = f'st{j}'
            if s['kind'] == 'source':
                kw = {}
                if s.get('budget') is not None:
                    kw['starting_parts'] = s['budget']
                if line.get('falsy_parts'):
                    kw['part_generator'] = tray_generator()
                d = Source(name=nm, cycle_time=s['ct'], **kw)
            elif s['kind'] == 'handler':
                d = PartHandler(name=nm, upstream=[prev], cycle_time=s['ct'])
            elif s['kind'] == 'processor':
                d = PartProcessor(name=nm, upstream=[prev], cycle_time=s['ct'])
                if s.get('raise_at'):
                    d.add_finish_processing_callback(RaiseAt(s['raise_at']))
            elif s['kind'] == 'buffer':
                d = Buffer(name=nm, upstream=[prev], minimum_delay=s.get('delay', 0), capacity=s.get('cap'))
            else:
                d = Sink(name=nm, upstream=[prev], cycle_time=s['ct'])
            devs.append(d)
            prev = d
        tops = line['stations'][0].get('topups') or []
        if tops and line['stations'][0].get('topup_mode') == 'event':
            for T, m in tops:
                system.env.schedule_event(T, devs[0].id, TopUp(devs[0], m), 5 + (m % 3) * 10)
            tops = []
        if line.get('scratch_at') is not None:
            # a private Environment of the user's own, created and run from an event in the middle of the line's run
            ids = [d.id for d in devs[:3]]
            system.env.schedule_event(line['scratch_at'], -2, Scratch(ids), 6)
        caught = [0]
        for T, m in tops:
            if T > system.env.now:
                sim_to(system, T, caught)
            devs[0].adjust_part_count(m)
        sim_to(system, line['horizon'], caught)
        RAISED[0] += caught[0]
    data = system.simulation_data
    obs = {}
    for j in range(1, len(devs)):
        obs[j] = [r[0] for r in data.get('received_part', {}).get(f'st{j}', [])]
    sup = [r[0] for r in data.get('supplied_new_part', {}).get('st0', [])]
    return obs, sup, devs[-1].received_parts_count, bus.dispatch_serial


def check_line(sh, line, policies, label='random'):
    case = {'engine': 'serial', 'line': line}
    E, D0, D = serial.reference(line['stations'], line['horizon'])
    n = len(line['stations'])
    # was anything blocked / starved according to the reference?
    blocked = 0
    for j in range(n - 1):
        for k in range(len(D[j])):
            ready = (D[j - 1][k] if j else (D[0][k - 1] if k else F(0)))
            # blocked: departure later than ready+service and later than predecessor's departure
        # simple measure: a departure that equals a downstream departure of an earlier part
    for j in range(n - 1):
        down = set(D[j + 1])
        for k, t in enumerate(D[j]):
            svc = F(line['stations'][j].get('ct', line['stations'][j].get('delay', 0)))
            arrive = D[j - 1][k] if j else (D[0][k - 1] if k else F(0))
            if t > arrive + svc and t in down:
                blocked += 1
    ok = True
    for tie in policies:
        try:
            obs, sup, sink_count, nev = run_line(line, tie, 17)
        except Exception as e:
            import traceback
            sh.violation('crash', f'serial line raised {type(e).__name__}: {e}', dict(case, tie=tie),
                         witness={'traceback': traceback.format_exc()[-1500:]}, engine='serial')
            return False
        sh.count('events', nev)
        for j in range(1, n):
            want = E[j]
            got = [F(x) for x in obs[j]]
            sh.count('arrival_times_compared', max(len(want), len(got)))
            if got != want:
                k = next((i for i in range(min(len(got), len(want))) if got[i] != want[i]),
                         min(len(got), len(want)))
                sh.violation('arrival_time', f'station {j} ({line["stations"][j]["kind"]}) tie={tie}: part {k + 1} '
                             f'arrives at {float(got[k]) if k < len(got) else None}, reference '
                             f'{float(want[k]) if k < len(want) else None} (observed {len(got)} arrivals, '
                             f'reference {len(want)})', dict(case, tie=tie), engine='serial')
                ok = False
                break
        if not ok:
            break
        gs = [F(x) for x in sup]
        sh.count('arrival_times_compared', max(len(gs), len(D0)))
        if gs != D0:
            sh.violation('supply_time', f'tie={tie}: source supply times differ from the reference: '
                         f'{sup[:6]} vs {[float(x) for x in D0[:6]]}', dict(case, tie=tie), engine='serial')
            ok = False
            break
        if sink_count != len(E[n - 1]):
            sh.violation('sink_count', f'tie={tie}: sink counted {sink_count}, reference {len(E[n - 1])}',
                         dict(case, tie=tie), engine='serial')
            ok = False
            break
    sh.count('blocked_departures', blocked)
    if RAISED[0]:
        sh.count('exceptions_from_user_callbacks_caught_and_continued', RAISED[0])
        RAISED[0] = 0
    if line.get('scale'):
        sh.count('lines_' + line['scale'])
    sh.count(label + '_lines')
    sh.case_done(case, blocked > 0, sample={'line': line, 'sink_count_reference': len(E[n - 1]),
                                            'blocked_departures': blocked})
    return ok


EXAMPLES = [
    ('SingleProcessor', {'stations': [{'kind': 'source', 'ct': 1, 'budget': None}, {'kind': 'processor', 'ct': 1},
                                     {'kind': 'sink', 'ct': 0}], 'horizon': 100}, 99),
    ('BufferExample', {'stations': [{'kind': 'source', 'ct': 0.0, 'budget': None}, {'kind': 'processor', 'ct': 1},
                                   {'kind': 'buffer', 'cap': 5, 'delay': 0}, {'kind': 'processor', 'ct': 1},
                                   {'kind': 'sink', 'ct': 0}], 'horizon': 60 * 24 * 7}, 10079),
]


def run(sh):
    n = 1500 if sh.tier == 'quick' else 100000
    if sh.idx == 0:
        for name, line, documented in EXAMPLES:
            E, D0, D = serial.reference(line['stations'], line['horizon'])
            ref = len(E[len(line['stations']) - 1])
            if ref != documented:
                sh.violation('documented_count', f'{name}: reference gives {ref}, documentation says {documented}',
                             {'engine': 'serial', 'line': line}, engine='serial')
            obs, sup, cnt, nev = run_line(line, 'prng', 3)
            if cnt != documented:
                sh.violation('documented_count', f'{name}: simulation gives {cnt}, documentation says {documented}',
                             {'engine': 'serial', 'line': line}, engine='serial')
            check_line(sh, line, ['prng', 'lifo'], label='documented_example')
    for i in sh.share(n):
        rng = random.Random(core.stable_int(sh.seed, 'C04', i))
        line = gen_line(rng)
        check_line(sh, line, list(ties.POLICIES))


def replay(sh, v):
    case = v['case']
    pol = [case['tie']] if case.get('tie') else list(ties.POLICIES)
    check_line(sh, dict(case['line']), pol)
