"""C09 - resource pools: usage = outstanding reservations; atomic requests.

The real ResourceManager is stepped through operation sequences next to a
small dictionary model; after EVERY operation (also those that raised) usage,
capacity and every live reservation's holdings are read through the public
getters and compared.
"""
import itertools

from .. import core

RES = ('a', 'b', 'c', 'zzz')

SPEC = {
    'level': 'exploration',
    'rule': ('operation sequences over add/reserve/release/merge on 3 resources and up to 4 live '
             'reservations: every sequence of length <= L over a 55-operation alphabet (incl. reservations that re-use one request dictionary object) from 3 base '
             'states (enumerated completely; L=3 quick, 4 thorough), then random sequences of length '
             '6-40 with integer and dyadic amounts; plus scripts on the real event queue in which reservations are made '
             'from inside availability callbacks (also with the dictionary object the manager offers, after another '
             'pool operation), judged for usage == outstanding reservations and success == fits; a case is one sequence; non-trivial = it contains a '
             'multi-entry request that must fail, or an operation that raised while a reservation was '
             'outstanding; distinct = by hash of the op list; also: release({}) and amounts of very different magnitude (2**34 next to 8)'),
    'floors': {'quick': {'state_comparisons': 50000, 'raised_ops_checked': 1000, 'reservations_judged': 3000, 'pool_checks': 20000},
               'thorough': {'state_comparisons': 1000000, 'raised_ops_checked': 10000}},
    'exhaustive_key': 'exhaustive_sequences',
    'exhaustive_text': 'all sequences up to the length bound over the fixed alphabet (pruned only of '
                       'sequences that refer to a reservation slot that does not exist)',
    'assumptions': ['self-merge and cross-manager merge are outside the statement',
                    'amounts are ints or dyadic rationals so float arithmetic is exact'],
    'timeout_s': {'quick': 600, 'thorough': 3600},
}

ADD_OPS = [('add', 'a', 1), ('add', 'a', -1), ('add', 'a', -3), ('add', 'b', 1), ('add', 'b', -1),
           ('add', 'c', 2), ('add', 'c', -1), ('add', 'a', 0)]
RESERVE_REQS = [
    [('a', 1)], [('a', 2)], [('b', 1)], [('a', 1), ('b', 1)], [('a', 1), ('b', 2)],
    [('a', 3), ('b', 1)], [('a', 1), ('b', 0)], [('a', 0)], [('a', 1), ('b', -1)],
    [('b', -1), ('a', 1)], [('a', -1)], [('a', 1), ('c', 1)], [('c', 1), ('a', 1)],
    [('a', 1), ('zzz', 0)], [], [('a', 0.5)]]
RELEASE_ARGS = [
    None, [('a', 1)], [('a', 2)], [('b', 1)], [('a', 1), ('b', 1)], [('a', 1), ('zzz', 0)],
    [('zzz', 0), ('a', 1)], [('a', 1), ('zzz', 1)], [('a', -1)], [('a', 1), ('b', -1)],
    [('a', 0)], [('a', 1), ('b', 5)], []]
ALPHABET = ([op for op in ADD_OPS]
            + [('reserve', r) for r in RESERVE_REQS]
            + [('reserve_shared', [('a', 1)]), ('reserve_shared', [('a', 1), ('b', 1)])]
            + [('reserve_recycled', [('a', 1)]), ('reserve_recycled', [('a', 2)])]
            + [('release', i, a) for i in (0, 1) for a in RELEASE_ARGS]
            + [('merge', 0, 1), ('merge', 1, 0)])

BASES = {
    'empty': [],
    'a2b1': [('add', 'a', 2), ('add', 'b', 1)],
    'a2b1_held': [('add', 'a', 2), ('add', 'b', 1), ('reserve', [('a', 1)])],
}


from .. import instrument as instrument_mod


class Model:
    def __init__(self):
        self.cap = {}
        self.use = {}
        self.hold = []      # list of dicts
        self.over_ok = set()

    def fits(self, req):
        """-> True / False / None (= not judged)"""
        judged = True
        for r, a in req:
            if a < 0:
                return None
        for r, a in req:
            free = self.cap.get(r, 0) - self.use.get(r, 0)
            if a == 0:
                if free < 0:
                    judged = False
                continue
            if r not in self.cap or free < a:
                return False
        return True if judged else None


def as_dict(pairs):
    d = {}
    for k, v in pairs:
        d[k] = v
    return d


class PoolRun:
    """Real manager + model, stepped together."""

    def __init__(self, sh, case):
        from simprocesd.model import Environment, ResourceManager
        self.sh = sh
        self.case = case
        self.rm = ResourceManager()
        self.env = Environment(resource_manager=self.rm)
        self.rm.initialize(self.env)
        self.m = Model()
        self.real = []   # real ReservedResources, parallel to m.hold
        self.shared = {}
        self.recycled = {}
        self.scratch = []
        self.raised_after_res = False
        self.failing_multi = False
        self.ok = True

    def fail(self, monitor, msg, k):
        self.ok = False
        self.sh.violation(monitor, msg, self.case, witness={'op_index': k, 'state': self.snapshot()},
                          engine='pools')

    def snapshot(self):
        return {'usage': {r: self.rm.get_resource_usage(r) for r in RES},
                'capacity': {r: self.rm.get_resource_capacity(r) for r in RES},
                'holdings': [x.reserved_resources for x in self.real]}

    def step(self, k, op, lenient=False):
        m = self.m
        kind = op[0]
        if lenient and kind in ('release', 'merge'):
            n = len(self.real)
            if n == 0 or (kind == 'merge' and n < 2):
                return 'ok'
            if kind == 'release':
                op = ('release', op[1] % n, op[2])
            else:
                i, j = op[1] % n, op[2] % n
                if i == j:
                    j = (i + 1) % n
                op = ('merge', i, j)
        before = self.snapshot()
        raised = None
        result = None
        try:
            if kind == 'add':
                self.rm.add_resources(op[1], op[2])
            elif kind == 'reserve':
                result = self.rm.reserve_resources(as_dict(op[1]))
            elif kind == 'reserve_shared':
                # the caller re-uses ONE request dictionary object for several reservations
                key = repr(op[1])
                if key not in self.shared:
                    self.shared[key] = as_dict(op[1])
                if self.shared[key] != as_dict(op[1]):
                    self.fail('request_dict_mutated', f'the caller\'s request dictionary {op[1]} was changed to '
                              f'{self.shared[key]} by earlier pool operations', k)
                    return 'stop'
                result = self.rm.reserve_resources(self.shared[key])
                kind = 'reserve'
            elif kind == 'reinit':
                # the manager is initialised once more (by hand before the first run, then by System.simulate(); or
                # handed to a second System): pools, usage and reservations stay what they are
                self.rm.initialize(self.env)
                self.sh.count('managers_initialised_again_with_reservations_out' if any(self.m.hold) else 'managers_initialised_again')
                kind = 'noop'
            elif kind == 'scratch_manager':
                # another pool manager of the user's own, with pools of the same names filled to the brim, lives next
                # to this one: nothing here may change
                self.scratch.append(instrument_mod.scratch_environment([1], pools=['a', 'b', 'c']))
                kind = 'noop'
            elif kind == 'reserve_recycled':
                # the caller keeps ONE dictionary object and fills it in anew for every request
                self.recycled.clear()
                self.recycled.update(as_dict(op[1]))
                result = self.rm.reserve_resources(self.recycled)
                kind = 'reserve'
            elif kind == 'release':
                if op[1] >= len(self.real):
                    return 'skip'
                self.real[op[1]].release(None if op[2] is None else as_dict(op[2]))
            elif kind == 'merge':
                if op[1] >= len(self.real) or op[2] >= len(self.real) or op[1] == op[2]:
                    return 'skip'
                self.real[op[1]].merge(self.real[op[2]])
        except (ValueError, KeyError, AssertionError, TypeError) as e:
            raised = e
        after = None

        # ---- expectations -------------------------------------------------
        if raised is not None:
            self.sh.count('raised_ops_checked')
            if any(m.hold):
                self.raised_after_res = True
            if result is not None and kind == 'reserve':
                self.real.append(result)
            after = self.snapshot()
            if after != before:
                self.fail('raise_changes_nothing',
                          f'op {op} raised {type(raised).__name__}({raised}) but changed state '
                          f'{before} -> {after}', k)
                return 'stop'
            # must it have succeeded?
            must = self.must_succeed(op)
            if must:
                self.fail('valid_op_raised', f'op {op} is valid ({must}) but raised '
                          f'{type(raised).__name__}({raised})', k)
                return 'stop'
        else:
            if kind == 'add':
                r, a = op[1], op[2]
                if m.cap.get(r, 0) + a < 0:
                    after = self.snapshot()
                    if after != before:
                        self.fail('capacity_negative', f'op {op} did not raise; {before}->{after}', k)
                        return 'stop'
                elif a != 0:
                    m.cap[r] = m.cap.get(r, 0) + a
                    m.use.setdefault(r, 0)
                    if m.cap[r] < m.use[r]:
                        m.over_ok.add(r)
            elif kind == 'reserve':
                req = op[1]
                fits = m.fits(req)
                multi = len([1 for r, a in req if a != 0]) >= 2
                if result is not None:
                    if fits is False:
                        self.real.append(result)
                        m.hold.append({})
                        self.fail('reserve_infeasible_granted',
                                  f'request {req} does not fit ({before}) but a reservation was returned', k)
                        return 'stop'
                    if any(a < 0 for r, a in req):
                        self.real.append(result)
                        m.hold.append({})
                        self.fail('reserve_negative_granted', f'request {req} with a negative entry '
                                  f'returned a reservation', k)
                        return 'stop'
                    h = {r: a for r, a in as_dict(req).items() if a != 0}
                    for r, a in h.items():
                        m.use[r] = m.use.get(r, 0) + a
                    m.hold.append(h)
                    self.real.append(result)
                else:
                    if fits is True:
                        self.fail('reserve_feasible_refused',
                                  f'request {req} fits ({before}) but None was returned', k)
                        return 'stop'
                    if fits is False and multi:
                        self.failing_multi = True
            elif kind == 'release':
                i, arg = op[1], op[2]
                h = m.hold[i]
                if arg is None:
                    for r, a in h.items():
                        m.use[r] -= a
                    m.hold[i] = {}
                else:
                    d = as_dict(arg)
                    bad = [(r, a) for r, a in d.items() if a < 0 or (a != 0 and h.get(r, 0) < a)]
                    if bad:
                        after = self.snapshot()
                        self.fail('invalid_release_accepted',
                                  f'release {arg} of holdings {h} is invalid ({bad}) but did not raise; '
                                  f'{before}->{after}', k)
                        return 'stop'
                    for r, a in d.items():
                        if a == 0:
                            continue
                        m.use[r] -= a
                        h[r] -= a
                        if h[r] == 0:
                            del h[r]
            elif kind == 'merge':
                i, j = op[1], op[2]
                for r, a in m.hold[j].items():
                    m.hold[i][r] = m.hold[i].get(r, 0) + a
                m.hold[j] = {}

        # ---- state comparison after every operation -------------------------
        if after is None:
            after = self.snapshot()
        self.sh.count('state_comparisons')
        for r in RES:
            u, c = after['usage'][r], after['capacity'][r]
            held = sum(h.get(r, 0) for h in after['holdings'])
            if u != held:
                self.fail('usage_eq_holdings', f'after {op}: usage({r})={u} but reservations hold {held}', k)
                return 'stop'
            if u < 0 or c < 0:
                self.fail('non_negative', f'after {op}: usage({r})={u} capacity={c}', k)
                return 'stop'
            if u != m.use.get(r, 0) or c != m.cap.get(r, 0):
                self.fail('model_agreement', f'after {op}: {r} real (use={u},cap={c}) model '
                          f'(use={m.use.get(r, 0)},cap={m.cap.get(r, 0)})', k)
                return 'stop'
            if u > c:
                if r not in m.over_ok:
                    self.fail('over_capacity', f'after {op}: usage({r})={u} > capacity {c} without an '
                              f'explicit reduction', k)
                    return 'stop'
            else:
                m.over_ok.discard(r)
        for i, h in enumerate(after['holdings']):
            if {r: a for r, a in h.items() if a != 0} != m.hold[i]:
                self.fail('holdings_model', f'after {op}: reservation {i} holds {h}, model {m.hold[i]}', k)
                return 'stop'
        return 'ok'

    def must_succeed(self, op):
        """Non-empty reason if the statement requires this op not to raise."""
        m = self.m
        kind = op[0]
        if kind == 'add':
            if m.cap.get(op[1], 0) + op[2] >= 0:
                return 'resulting capacity is not negative'
        elif kind in ('reserve', 'reserve_shared', 'reserve_recycled'):
            if all(a >= 0 for r, a in op[1]):
                return 'no negative entry: the answer is a reservation or None'
        elif kind == 'release':
            h = m.hold[op[1]]
            if op[2] is None:
                return 'full release'
            d = as_dict(op[2])
            if all(a > 0 and h.get(r, 0) >= a for r, a in d.items()):
                return 'releases no more than is held'
        elif kind == 'merge':
            return 'merge of two distinct reservations'
        return ''


def run_sequence(sh, base, seq, lenient=False):
    from .. import instrument
    instrument.CALLS = 0          # no event is dispatched here: the per-event call budget is per sequence
    case = {'engine': 'pools', 'base': base, 'lenient': lenient, 'ops': [list(o) for o in seq]}
    pr = PoolRun(sh, case)
    for op in BASES[base]:
        pr.step(-1, op)
    for k, op in enumerate(seq):
        r = pr.step(k, op, lenient)
        if r == 'skip':
            return None
        if r == 'stop':
            break
    sh.case_done(case, pr.raised_after_res or pr.failing_multi)
    return pr.ok


def needs_slots(seq, base):
    """Prune sequences that refer to a reservation that cannot exist."""
    n = 1 if base == 'a2b1_held' else 0
    for op in seq:
        if op[0] in ('reserve', 'reserve_shared', 'reserve_recycled'):
            n += 1      # upper bound (may fail), exact skip happens at run time
        elif op[0] == 'release' and op[1] >= n:
            return False
        elif op[0] == 'merge' and max(op[1], op[2]) >= n:
            return False
    return True


def random_sequence(rng):
    names = ['a', 'b', 'c']
    grid = [0.5, 1, 1, 1.5, 2, 2, 3, 0.25]
    if rng.random() < 0.12:
        # amounts of very different magnitude on one pool (bytes of memory: 2**34 next to 8), all exact
        grid = [2 ** 34, 3 * 2 ** 32, 2 ** 33, 8, 1, 8, 2 ** 34 - 8]
    seq = []
    nres = 0
    for _ in range(rng.randint(6, 40)):
        x = rng.random()
        if x < 0.03:
            seq.append(('scratch_manager',) if rng.random() < 0.5 else ('reinit',))
            continue
        if x < 0.22:
            amt = rng.choice(grid) * rng.choice([1, 1, 1, -1, -1, 0])
            seq.append(('add', rng.choice(names + ['zzz']) if rng.random() < 0.1 else rng.choice(names), amt))
        elif x < 0.55 or nres == 0:
            k = rng.choice([1, 1, 2, 2, 3])
            req = []
            for r in rng.sample(names + ['zzz'], k):
                a = rng.choice(grid)
                y = rng.random()
                if y < 0.08:
                    a = 0
                elif y < 0.14:
                    a = -a
                req.append((r, a))
            y = rng.random()
            seq.append(('reserve_shared' if y < 0.2 else 'reserve_recycled' if y < 0.4 else 'reserve', req))
            nres += 1
        elif x < 0.85:
            i = rng.randrange(min(nres, 4))
            if rng.random() < 0.4:
                seq.append(('release', i, None))
            else:
                k = rng.choice([1, 1, 1, 2, 2, 0])
                arg = []
                for r in rng.sample(names + ['zzz'], k):
                    a = rng.choice(grid)
                    y = rng.random()
                    if y < 0.1:
                        a = 0
                    elif y < 0.15:
                        a = -a
                    arg.append((r, a))
                seq.append(('release', i, arg))
        else:
            if nres >= 2:
                i, j = rng.sample(range(min(nres, 4)), 2)
                seq.append(('merge', i, j))
    return seq


def run(sh):
    from .. import instrument
    instrument.install()      # call budget + which library functions were entered
    L = 3 if sh.tier == 'quick' else 4
    nrand = 6000 if sh.tier == 'quick' else 240000
    # exhaustive part: the first op (and base) selects the shard
    k = 0
    for base in BASES:
        for length in range(1, L + 1):
            for first in ALPHABET:
                k += 1
                if k % sh.n != sh.idx:
                    continue
                for rest in itertools.product(ALPHABET, repeat=length - 1):
                    seq = (first,) + rest
                    if not needs_slots(seq, base):
                        continue
                    if run_sequence(sh, base, seq) is not None:
                        sh.count('exhaustive_sequences')
    for i in sh.share(nrand):
        rng = __import__('random').Random(core.stable_int(sh.seed, 'C09', i))
        seq = random_sequence(rng)
        # slot references beyond what exists make the run stop early; count anyway
        base = rng.choice(list(BASES))
        r = run_sequence(sh, base, seq, True)
        if r is not None:
            sh.count('random_sequences')
    waiter_leg(sh)


def waiter_leg(sh):
    """The same pool invariants where reservations are made from inside availability callbacks (also with the
    very dictionary the manager offers), on the real event queue: C10's script engine, C09's oracles."""
    import random as _r
    from . import C10
    n = 1500 if sh.tier == 'quick' else 60000
    pol = ['prng', 'fifo', 'lifo', 'const']
    for i in sh.share(n):
        rng = _r.Random(core.stable_int(sh.seed, 'C09w', i))
        C10.run_case(sh, C10.gen_case(rng, pol[i % 4]), owner='C09')
        sh.count('callback_scripts')


def replay(sh, v):
    case = v['case']
    if case.get('engine') == 'waiters':
        from . import C10
        C10.run_case(sh, case, owner='C09')
        return
    seq = [tuple(tuple(x) if isinstance(x, list) and x and not isinstance(x[0], list) else x for x in o)
           for o in case['ops']]
    # restore tuple shapes: ops are (kind, ...) with request lists of pairs
    fixed = []
    for o in case['ops']:
        o = list(o)
        if o[0] in ('reserve', 'reserve_shared', 'reserve_recycled'):
            fixed.append((o[0], [tuple(p) for p in o[1]]))
        elif o[0] == 'release':
            fixed.append(('release', o[1], None if o[2] is None else [tuple(p) for p in o[2]]))
        else:
            fixed.append(tuple(o))
    run_sequence(sh, case['base'], fixed, case.get('lenient', False))
