"""C20 - system lifecycle: registration, single initialisation, late-created assets.

Three scenario engines, all with the lifecycle monitor attached (creation and
initialisation logs from the Asset.__init__ / Asset.initialize wrappers):
  (i)  a self-contained sub-line (source ... sink, maintainer with orders,
       scheduler, periodic / output-part sensors, cms, failures) created at
       time t INSIDE an event vs. its twin created before the start: all records,
       counters, values and sensor series must agree after shifting time by t;
  (ii) a branch attached to a running line at t: created at t vs. pre-created
       unwired and wired at t with set_upstream in the same order: records must
       agree unshifted (compared under the creation-order tie policy, which is
       invariant to the extra events of one variant);
  (iii) sequences of System() creations, assets of every class created before
       the first run, between runs and inside events, 1-3 simulate calls:
       registry membership, initialise-exactly-once, events only after
       initialisation, RuntimeError from a superseded system, find_assets vs. a
       brute-force filter over the creation log.
"""
import json
import random
import re

from .. import build as build_mod
from .. import core, instrument, modelgen, ties

SPEC = {
    'level': 'exploration',
    'rule': ('(i) generated self-contained sub-lines created inside an event at t in {0.75, 3, 10.5, ...} vs. twins '
             'created before the start (time-shifted comparison of all records, counters, values, sensor series, '
             'uptime and utilisation); (ii) generated running lines to which a branch of 1-3 devices (handler / '
             'processor / buffer / gate / batcher ... sink) is attached at t: created at t vs. pre-created unwired '
             'and wired at t; (iii) sequences of System creations with assets of every class created before the first '
             'run, between runs and inside events, with 1-3 simulate calls; lifecycle monitor on all of them; a case '
             'is one scenario; non-trivial = a late-created asset subsequently handled a part / order / transition / '
             'sample; also: System creations inside simulate_multiple_times(.., 0), late group-path twins against block_input twins, nested spawners, refused late constructions, hundreds of assets'),
    'floors': {'quick': {'late_created_assets': 1500, 'subline_twins_equal': 70, 'branch_twins_equal': 70,
                         'find_assets_queries': 1200, 'superseded_system_rejected': 100,
                         'late_assets_that_worked': 500, 'initialisations_checked': 5000},
               'thorough': {'late_created_assets': 30000, 'subline_twins_equal': 2000, 'branch_twins_equal': 2000,
                            'find_assets_queries': 40000, 'superseded_system_rejected': 2000,
                            'late_assets_that_worked': 10000, 'initialisations_checked': 100000}},
    'assumptions': ['absolute uptime of a late-created processor is compared only through the time-shifted twin',
                    'twins are compared under the creation-order (fifo) tie policy'],
    'timeout_s': {'quick': 900, 'thorough': 7200},
}


class EventStorm(Exception):
    pass


class Lifecycle:
    """Bus monitor: creation / initialisation logs."""

    def __init__(self, sh, case):
        self.sh, self.case = sh, case
        self.created = []          # dicts
        self.by_id = {}            # id(asset) -> record
        self.by_asset_id = {}      # asset.id -> record
        self.failed = False
        self.registrations = []    # (asset, system) in the order the registrations happened

    def fail(self, name, msg):
        if not self.failed:
            self.failed = True
            self.sh.violation(name, msg, self.case, engine='lifecycle')

    def name_of(self, asset):
        """The asset's name as laid down by the constructor call: the name given, or <class>_<id> when None."""
        rec = self.by_id.get(id(asset))
        if rec is None or rec.get('asset') is not asset or 'given' not in rec:
            return asset.name
        return rec['given'] if rec['given'] is not None else f'{type(asset).__name__}_{asset.id}'

    def hand_over(self, asset, system):
        """System.add_asset(asset) called by the user for an asset that exists already (built under an older System
        that never ran, or not registered at all): it is now also registered with the active System."""
        from simprocesd.model import System
        rec = self.by_id.get(id(asset))
        System.add_asset(asset)
        first = not any(a is asset and s is system for a, s in self.registrations)
        if first:
            self.registrations.append([asset, system])
        if rec is not None and rec.get('asset') is asset:
            rec['also'] = system
        n = sum(1 for a in system.find_assets() if a is asset)
        if n != 1:
            self.fail('not_registered', f'{type(asset).__name__} {self.name_of(asset)!r} handed to the active System with '
                      f'System.add_asset() ({"first" if first else "second"} call) is registered {n} times with it')
        elif system._simulation_is_initialized and asset.env is not system.env:
            self.fail('late_not_initialised', f'{type(asset).__name__} {self.name_of(asset)!r} handed to the running System '
                      f'with System.add_asset() was not initialised at once')
        self.sh.count('assets_handed_to_the_active_system')

    def asset_created(self, asset, phase):
        from simprocesd.model import System
        if phase != 'end':
            # (registration order = the order in which the constructors START: an asset created by another one's
            #  initialisation inside that one's constructor is registered after it)
            self.registrations.append([asset, None])
            return
        s = System._instance
        running = bool(s is not None and s._simulation_is_initialized)
        rec = {'asset': asset, 'system': s, 'late': running, 'inits': self.by_id.get(id(asset), {}).get('inits', 0),
               'cls': type(asset).__name__, 'given': instrument.LAST_NAME_GIVEN}
        for slot in reversed(self.registrations):
            if slot[0] is asset and slot[1] is None:
                slot[1] = s
                break
        else:
            self.registrations.append([asset, s])
        prev = self.by_id.get(id(asset))
        if prev is not None and prev.get('asset') is asset:
            rec['inits'] = prev['inits']
        self.created.append(rec)
        self.by_id[id(asset)] = rec
        self.by_asset_id[asset.id] = rec
        if running:
            self.sh.count('late_created_assets')
            self.sh.count('late_created:' + type(asset).__name__)
            if asset.env is None:
                self.fail('late_not_initialised', f'{type(asset).__name__} {asset.name} created while the simulation '
                          f'is running was not initialised at once')
        # registered with the newest system, and with no other
        if s is None or asset not in s.find_assets():
            self.fail('not_registered', f'{type(asset).__name__} {asset.name} is not registered with the newest system')

    def asset_initialized(self, asset, env):
        rec = self.by_id.get(id(asset))
        if rec is None or rec['asset'] is not asset:
            # initialisation can happen inside the base constructor, before 'end'
            rec = {'asset': asset, 'inits': 0, 'pending': True}
            self.by_id[id(asset)] = rec
        rec['inits'] += 1
        if rec['inits'] > 1:
            self.fail('initialised_twice', f'{type(asset).__name__} {getattr(asset, "name", "?")} initialised '
                      f'{rec["inits"]} times')

    def dispatch(self, ev):
        # a run that executes events without end (e.g. a scheduler looping at one instant) is stopped with a verdict
        self.n_events = getattr(self, 'n_events', 0) + 1
        if self.n_events > 400000:
            self.fail('event_storm', f'more than 400000 events executed in one scenario (clock {ev.time!r}, last action '
                      f'{instrument.action_name(ev.action)})')
            raise EventStorm()
        rec = self.by_asset_id.get(ev.asset_id)
        if rec is not None and rec['inits'] < 1 and not ev.cancelled:
            self.fail('event_before_initialise', f'event {instrument.action_name(ev.action)} of {rec["asset"].name} '
                      f'dispatched before the asset was initialised')

    def final(self, systems_simulated):
        for rec in self.created:
            a = rec['asset']
            want = 1 if rec['system'] in systems_simulated or rec.get('also') in systems_simulated else 0
            got = self.by_id[id(a)]['inits']
            if got != want:
                self.fail('initialise_count', f'{rec["cls"]} {a.name}: initialised {got} times, expected {want}')
                return
            self.sh.count('initialisations_checked')
            for s in {r['system'] for r in self.created}:
                reg = a in s.find_assets()
                if reg != (s is rec['system'] or s is rec.get('also')):
                    self.fail('registry', f'{rec["cls"]} {a.name} registered={reg} with a system that is '
                              f'{"" if s is rec["system"] else "not "}the newest at its creation')
                    return


# ---------------------------------------------------------------------------------------------------
# digests

def rank_ids(values):
    ids = sorted({v for v in values if isinstance(v, int) and not isinstance(v, bool)})
    return {v: k for k, v in enumerate(ids)}


def digest(model, shift=0.0, only=None, skip_uptime=()):
    """Summary of what a user can read, ids replaced by ranks among the part ids seen, times shifted."""
    sysm = model.system
    data = sysm.simulation_data
    part_ids = []
    for label in ('received_part', 'produced_part', 'supplied_new_part', 'device_failure'):
        for sub, recs in data.get(label, {}).items():
            if only is not None and sub not in only:
                continue
            part_ids.extend(r[1] for r in recs if r[1] is not None)
    rk = rank_ids(part_ids)

    def nm(n):
        m = re.match(r'^(Batch|Part)_(\d+)$', n) if isinstance(n, str) else None
        return f'{m.group(1)}_#' if m else n
    out = {}
    for label, table in data.items():
        t2 = {}
        for sub, recs in table.items():
            if only is not None and sub not in only:
                continue
            rows = []
            for r in recs:
                r = list(r)
                r[0] = float(r[0]) - shift
                if label in ('received_part', 'produced_part', 'supplied_new_part', 'device_failure') and r[1] is not None:
                    r[1] = rk.get(r[1], 'unranked')
                rows.append([float(x) if isinstance(x, (int, float)) and not isinstance(x, bool) else
                             (x if isinstance(x, (str, bool, type(None))) else repr(x)) for x in r])
            t2[sub] = rows
        if t2:
            out[label] = t2
    devs = {}
    for did, dev in model.devs.items():
        if only is not None and did not in only:
            continue
        d = {'value': float(dev.value), 'history': [[h[0], float(h[1]) - shift, float(h[2]), float(h[3])]
                                                    for h in dev.value_history]}
        for attr in ('produced_parts', 'received_parts_count', 'uptime', 'utilization_time', 'value_of_received_parts',
                     'cost_of_produced_parts', 'available_capacity', 'current_state', 'block_input'):
            if hasattr(dev, attr):
                if attr == 'uptime' and did in skip_uptime:
                    continue
                v = getattr(dev, attr)
                d[attr] = float(v) if isinstance(v, (int, float)) and not isinstance(v, bool) else v
        if hasattr(dev, 'is_operational'):
            d['operational'] = dev.is_operational()
        if hasattr(dev, 'level'):
            d['level'] = dev.level()
        if hasattr(dev, '_part'):
            d['holding'] = [nm(p.name) if p is not None else None for p in (dev._part, dev._output)]
        if hasattr(dev, 'collected_parts'):
            d['collected'] = [[nm(p.name), [x.name for x in p.routing_history]] for p in dev.collected_parts]
        if hasattr(dev, 'data') and hasattr(dev, 'last_sense'):
            series = []
            for key, vals in dev.data.items():
                if key == 'time':
                    series.append(['time', [float(v) - shift for v in vals]])
                else:
                    series.append([getattr(key, '_attribute_name', 'probe'),
                                   [float(v) if isinstance(v, (int, float)) and not isinstance(v, bool) else v
                                    for v in vals]])
            d['sensor'] = series
            d['last_sense'] = [float(v) if isinstance(v, (int, float)) and not isinstance(v, bool) else v
                               for v in dev.last_sense]
        devs[did] = d
    return json.dumps({'data': out, 'devs': devs, 'now': float(sysm.env.now) - shift}, sort_keys=True, default=repr)


def first_diff(a, b):
    if a == b:
        return None
    i = next((k for k in range(min(len(a), len(b))) if a[k] != b[k]), min(len(a), len(b)))
    return f'...{a[max(0, i - 150):i + 100]} <<>> ...{b[max(0, i - 150):i + 100]}'


# ---------------------------------------------------------------------------------------------------
# (i) self-contained sub-line, late vs. early

def gen_subline(rng):
    items = [{'id': 'S1', 'kind': 'source', 'ct': rng.choice([0.5, 1, 1, 2, 0]), 'budget': rng.choice([None, 6, 15]),
              'values': [1, 2.5], 'qualities': [1, 0.5]}]
    if items[0]['ct'] == 0 and items[0]['budget'] is None:
        items[0]['budget'] = 9
    prev = 'S1'
    procs = []
    n = rng.choice([1, 2, 3, 4])
    for k in range(n):
        kind = rng.choice(['processor', 'processor', 'handler', 'buffer', 'batcher', 'gate'])
        i = f'D{k + 2}'
        if kind == 'processor':
            items.append({'id': i, 'kind': 'processor', 'up': [prev], 'ct': rng.choice([0, 0.5, 1, 1.5]),
                          'res': {'r0': 1} if rng.random() < 0.3 else None,
                          'value_add': rng.choice([None, 0.5]), 'quality_mul': rng.choice([None, 0.5]),
                          'wo': {'x': [rng.choice([0, 1, 2]), rng.choice([0, 1]), rng.choice([0, 1.5])],
                                 'y': [0.5, 1, 0]}})
            procs.append(i)
        elif kind == 'handler':
            items.append({'id': i, 'kind': 'handler', 'up': [prev], 'ct': rng.choice([0, 0.5, 1])})
        elif kind == 'buffer':
            items.append({'id': i, 'kind': 'buffer', 'up': [prev], 'cap': rng.choice([1, 2, None]),
                          'delay': rng.choice([0, 0.5, 1])})
        elif kind == 'batcher':
            items.append({'id': i, 'kind': 'batcher', 'up': [prev], 'size': rng.choice([None, 2, 3])})
        else:
            items.append({'id': i, 'kind': 'gate', 'up': [prev], 'pred': {'t': 'always'}})
        prev = i
    items.append({'id': 'K', 'kind': 'sink', 'up': [prev], 'ct': rng.choice([0, 0.5]), 'collect': True})
    horizon = float(rng.choice([12, 20, 30]))
    script = []
    if procs:
        items.append({'id': 'M', 'kind': 'maintainer', 'cap': rng.choice([None, 1, 2])})
        for _ in range(rng.choice([0, 2, 4])):
            t = rng.randrange(1, int(horizon * 4)) / 4.0
            op = rng.choice(['fail', 'work_order', 'work_order', 'shutdown'])
            e = {'t': t, 'prio': rng.choice([2, 3.5, 6.5, 10]), 'op': op, 'target': rng.choice(procs)}
            if op == 'work_order':
                e.update(maint='M', tag=rng.choice(['x', 'y']))
            script.append(e)
            if op in ('fail', 'shutdown'):
                script.append({'t': min(horizon, t + rng.choice([0.5, 1, 2])), 'prio': 9, 'op': 'restore',
                               'target': e['target']})
        p = rng.choice(procs)
        if rng.random() < 0.7:
            items.append({'id': 'PS', 'kind': 'psensor', 'interval': rng.choice([0.5, 1, 2.5]), 'target': p,
                          'attrs': ['utilization_time', 'block_input'], 'capacity': rng.choice([None, 3])})
        if rng.random() < 0.7:
            items.append({'id': 'OS', 'kind': 'osensor', 'target': p, 'attrs': ['quality', 'value'],
                          'n': rng.choice([0, 1, 2]), 'capacity': rng.choice([None, 2])})
        if rng.random() < 0.5 and any(i['id'] in ('PS', 'OS') for i in items):
            items.append({'id': 'CM', 'kind': 'cms', 'maint': 'M',
                          'sensors': [i['id'] for i in items if i['id'] in ('PS', 'OS')]})
        if rng.random() < 0.6:
            items.append({'id': 'AS', 'kind': 'scheduler', 'timetable': [[rng.choice([1, 2, 0.5, 0, 0]), True],
                                                                       [rng.choice([0.5, 1]), False]],
                          'cyclical': rng.choice([True, False, None]), 'targets': [p]})
    script.sort(key=lambda e: e['t'])
    return {'resources': {'r0': 1}, 'items': items, 'horizon': [horizon], 'script': script, 'max_events': 20000}


def run_subline(sh, spec, t_create, case):
    """-> (digest, lifecycle monitor, worked?)"""
    from simprocesd.model import System
    instrument.install()
    lc = Lifecycle(sh, case)
    bus = instrument.Bus(ties.make_policy('fifo', 0))
    bus.attach(lc)
    H = spec['horizon'][0]
    holder = {}
    with instrument.use_bus(bus):
        if t_create is None:
            m = build_mod.build(dict(spec, tie='fifo'), bus=None)
            m.system.simulate(H, print_summary=False)
            lc.final({m.system})
            return digest(m, 0.0), lc, m
        system = System()

        def create():
            holder['m'] = build_mod.build(dict(spec, tie='fifo', script_shift=t_create), bus=None, system=system)
        create.__name__ = 'create_subline'
        system.env.schedule_event(t_create, -2, create, 6)
        system.simulate(t_create + H, print_summary=False)
        m = holder['m']
        lc.final({system})
        return digest(m, t_create), lc, m


def subline_case(sh, i):
    seed = core.stable_int(sh.seed, 'C20sub', i)
    rng = random.Random(seed)
    spec = gen_subline(rng)
    t = rng.choice([0.75, 3, 10.5, 0.125, 64])
    case = {'engine': 'subline', 'spec': spec, 't_create': t}
    try:
        early, lc1, m1 = run_subline(sh, spec, None, case)
        late, lc2, m2 = run_subline(sh, spec, t, case)
    except Exception as e:
        import traceback
        sh.violation('late_creation_crash', f'{type(e).__name__}: {e} {traceback.format_exc()[-1200:]}', case,
                     engine='subline')
        sh.case_done({'sub': seed}, False)
        return
    worked = 0
    if not (lc1.failed or lc2.failed):
        if early != late:
            sh.violation('late_twin_differs', f'sub-line created at {t} differs from its twin created before the start '
                         f'(times shifted): {first_diff(early, late)}', case, engine='subline')
        else:
            sh.count('subline_twins_equal')
        # did the late-created assets do anything?
        d = m2.system.simulation_data
        for it in spec['items']:
            k, did = it['kind'], it['id']
            did_work = False
            if k in ('handler', 'processor', 'buffer', 'batcher', 'sink'):
                did_work = len(d.get('received_part', {}).get(did, [])) > 0
            elif k == 'source':
                did_work = m2.devs[did].produced_parts > 0
            elif k == 'maintainer':
                did_work = len(d.get('start_work_order', {}).get(did, [])) > 0
            elif k == 'scheduler':
                did_work = len(d.get('schedule_update', {}).get(did, [])) > 1
            elif k in ('psensor', 'osensor'):
                did_work = any(len(v) > 0 for v in m2.devs[did].data.values())
            if did_work:
                worked += 1
                sh.count('late_assets_that_worked')
                sh.count('late_worked:' + k)
    sh.case_done({'sub': seed, 't': t}, worked > 0,
                 sample={'scenario': 'subline', 't_create': t, 'kinds': [i['kind'] for i in spec['items']],
                         'late_assets_that_worked': worked})


def generated_subline_case(sh, i):
    """(i') the same twin with a whole generated model (every device kind, groups, gates, batchers, pools, fault
    scripts, operating schedules) as the sub-line."""
    seed = core.stable_int(sh.seed, 'C20gen', i)
    rng = random.Random(seed)
    spec = modelgen.generate(seed % (1 << 40), rng.choice(['general', 'routing', 'faults', 'resources', 'batching']),
                             tie='fifo', overrides={'p_split': 0.0, 'horizon': (12, 30)})
    spec['script'] = [e for e in spec['script'] if e['op'] != 'rewire']
    spec.pop('poke', None)
    spec.pop('trace', None)
    t = rng.choice([0.75, 3, 10.5, 0.125, 64, 2.5])
    case = {'engine': 'subline', 'spec': spec, 't_create': t}
    try:
        early, lc1, m1 = run_subline(sh, spec, None, case)
        late, lc2, m2 = run_subline(sh, spec, t, case)
    except Exception as e:
        import traceback
        sh.violation('late_creation_crash', f'{type(e).__name__}: {e} {traceback.format_exc()[-1200:]}', case,
                     engine='subline')
        sh.case_done({'gen': seed}, False)
        return
    worked = 0
    if not (lc1.failed or lc2.failed):
        if early != late:
            sh.violation('late_twin_differs', f'generated model created at {t} differs from its twin created before '
                         f'the start (times shifted): {first_diff(early, late)}', case, engine='subline')
        else:
            sh.count('subline_twins_equal')
            sh.count('generated_model_twins_equal')
        d = m2.system.simulation_data
        for it in spec['items']:
            if len(d.get('received_part', {}).get(it['id'], [])) > 0:
                worked += 1
                sh.count('late_assets_that_worked')
                sh.count('late_worked:' + it['kind'])
    sh.case_done({'gen': seed, 't': t}, worked > 0,
                 sample={'scenario': 'generated model created late', 't_create': t,
                         'kinds': sorted({i['kind'] for i in spec['items']}), 'late_assets_that_worked': worked})


# ---------------------------------------------------------------------------------------------------
# (ii) branch attached to a running line

def gen_branch(rng, base_spec):
    cands = [i['id'] for i in base_spec['items'] if i['kind'] in ('handler', 'processor', 'buffer', 'source')]
    in_groups = set()
    for i in base_spec['items']:
        if i['kind'] == 'group':
            in_groups.update(i['members'])
    cands = [c for c in cands if c not in in_groups]
    if not cands:
        return None
    head_up = rng.choice(cands)
    items = []
    prev = head_up
    for k in range(rng.choice([0, 1, 2, 3])):
        kind = rng.choice(['handler', 'processor', 'buffer', 'gate', 'batcher'])
        i = f'X{k}'
        if kind == 'handler':
            items.append({'id': i, 'kind': 'handler', 'up': [prev], 'ct': rng.choice([0, 0.5, 1, 2])})
        elif kind == 'processor':
            items.append({'id': i, 'kind': 'processor', 'up': [prev], 'ct': rng.choice([0, 0.5, 1.5]), 'res': None,
                          'wo': {'x': [1, 0, 0], 'y': [0, 0, 0]}})
        elif kind == 'buffer':
            items.append({'id': i, 'kind': 'buffer', 'up': [prev], 'cap': rng.choice([1, 3, None]),
                          'delay': rng.choice([0, 1])})
        elif kind == 'gate':
            items.append({'id': i, 'kind': 'gate', 'up': [prev], 'pred': {'t': 'always'}})
        else:
            items.append({'id': i, 'kind': 'batcher', 'up': [prev], 'size': rng.choice([None, 2])})
        prev = i
    items.append({'id': 'XK', 'kind': 'sink', 'up': [prev], 'ct': rng.choice([0, 0.5, 1]), 'collect': True})
    return items


def run_branch(sh, base_spec, branch, t_attach, variant, case):
    from simprocesd.model import System
    instrument.install()
    lc = Lifecycle(sh, case)
    bus = instrument.Bus(ties.make_policy('fifo', 0))
    bus.attach(lc)
    with instrument.use_bus(bus):
        m = build_mod.build(dict(base_spec, tie='fifo'), bus=None)
        w = m.world
        sub = {'resources': {}, 'items': [], 'script': []}
        if variant == 'pre':
            # every branch device pre-created unwired, wired at t in the same order
            unwired = [dict(it, up=[]) for it in branch]
            mb = build_mod.build(dict(sub, items=unwired), bus=None, system=m.system, script=False)
            for did, dev in mb.devs.items():
                w.devs[did] = dev
                m.id_of[id(dev)] = did

            def attach():
                for it in branch:
                    w.devs[it['id']].set_upstream([w.devs[u] for u in it['up']])
        else:
            def attach():
                # the builder resolves upstream names in its own table: seed it with the base devices
                mb = build_mod.Model(dict(sub, items=branch))
                for it in branch:
                    one = build_mod.build(dict(sub, items=[it]), bus=None, system=m.system, script=False,
                                          known=w.devs)
                    for did, dev in one.devs.items():
                        w.devs[did] = dev
                        m.id_of[id(dev)] = did
        attach.__name__ = 'attach_branch'
        m.system.env.schedule_event(t_attach, -2, attach, 6)
        for d in base_spec['horizon']:
            m.system.simulate(d, print_summary=False)
        lc.final({m.system})
    m.kinds.update({it['id']: it['kind'] for it in branch})
    return digest(m, 0.0, skip_uptime={it['id'] for it in branch}), lc, m


def branch_case(sh, i):
    seed = core.stable_int(sh.seed, 'C20br', i)
    rng = random.Random(seed)
    base = modelgen.generate(seed % (1 << 40), rng.choice(['general', 'buffers', 'faults']), tie='fifo',
                             overrides={'p_split': 0.0})
    # rewiring by the script would interfere with the attachment under test
    base['script'] = [e for e in base['script'] if e['op'] != 'rewire']
    branch = gen_branch(rng, base)
    if branch is None:
        return
    total = sum(base['horizon'])
    t = rng.randrange(1, int(total * 8)) / 8.0
    case = {'engine': 'branch', 'spec': base, 'branch': branch, 't_attach': t}
    try:
        a, lca, ma = run_branch(sh, base, branch, t, 'late', case)
        b, lcb, mb = run_branch(sh, base, branch, t, 'pre', case)
    except Exception as e:
        import traceback
        sh.violation('late_creation_crash', f'{type(e).__name__}: {e} {traceback.format_exc()[-1200:]}', case,
                     engine='branch')
        sh.case_done({'br': seed}, False)
        return
    worked = 0
    if not (lca.failed or lcb.failed):
        if a != b:
            sh.violation('late_twin_differs', f'branch created at {t} differs from the twin pre-created unwired and '
                         f'wired at {t}: {first_diff(a, b)}', case, engine='branch')
        else:
            sh.count('branch_twins_equal')
        d = ma.system.simulation_data
        for it in branch:
            if len(d.get('received_part', {}).get(it['id'], [])) > 0:
                worked += 1
                sh.count('late_assets_that_worked')
                sh.count('late_worked:' + it['kind'])
    sh.case_done({'br': seed, 't': t}, worked > 0,
                 sample={'scenario': 'branch', 't_attach': t, 'branch': [it['kind'] for it in branch],
                         'late_assets_that_worked': worked})


# ---------------------------------------------------------------------------------------------------
# (iii) system sequences, every asset class, find_assets

def make_assets(rng, tag, n):
    """Create n assets of random classes in the current newest system; returns the list."""
    from simprocesd.model.factory_floor import (Source, PartHandler, PartProcessor, Buffer, DecisionGate,
                                                PartFlowController, PartBatcher, Sink, Maintainer, ActionScheduler,
                                                Group)
    from simprocesd.model.sensors import Sensor, PeriodicSensor, OutputPartSensor, AttributeProbe
    from simprocesd.model.cms import Cms
    out = []
    src = Source(name=f'{tag}_src', cycle_time=rng.choice([0, 1, 0.5]), starting_parts=3)
    out.append(src)
    prev = src
    for k in range(n):
        c = rng.choice(['handler', 'processor', 'buffer', 'gate', 'flow', 'batcher', 'maintainer', 'scheduler',
                        'sensor', 'psensor', 'osensor', 'cms', 'group'])
        nm = rng.choice([f'{tag}_{c}{k}', f'{tag}_{c}{k}', 'shared_name', None])
        if rng.random() < 0.06:
            nm = ''          # an empty name is a name like any other (it is not "no name given")
        if c == 'handler':
            prev = PartHandler(name=nm, upstream=[prev], cycle_time=0.5)
            a = prev
        elif c == 'processor':
            prev = PartProcessor(name=nm, upstream=[prev], cycle_time=0.5)
            a = prev
        elif c == 'buffer':
            prev = Buffer(name=nm, upstream=[prev], capacity=2)
            a = prev
        elif c == 'gate':
            prev = DecisionGate(name=nm, upstream=[prev], decider_override=modelgen.Pred({'t': 'always'}))
            a = prev
        elif c == 'flow':
            prev = PartFlowController(name=nm, upstream=[prev])
            a = prev
        elif c == 'batcher':
            prev = PartBatcher(name=nm, upstream=[prev], output_batch_size=rng.choice([None, 2]))
            a = prev
        elif c == 'maintainer':
            a = Maintainer(name=nm or 'maintainer')
        elif c == 'scheduler':
            a = ActionScheduler([(1, 'a'), (0.5, 'b')], name=nm)
        elif c == 'sensor':
            a = Sensor([AttributeProbe('value', src)], name=nm)
        elif c == 'psensor':
            a = PeriodicSensor(0.5, [AttributeProbe('value', src)], name=nm)
        elif c == 'osensor':
            p = PartProcessor(name=None, upstream=[prev], cycle_time=0.25)
            prev = p
            out.append(p)
            a = OutputPartSensor(p, [AttributeProbe('quality', None)], name=nm)
        elif c == 'cms':
            mt = Maintainer(name=f'{tag}_m{k}')
            out.append(mt)
            a = Cms(mt, name=nm)
        else:
            g1 = PartHandler(name=f'{tag}_g{k}', cycle_time=0.25)
            out.append(g1)
            grp = Group(f'{tag}_grp{k}', [g1])
            out.append(grp._input_device)
            out.append(grp._output_device)
            prev = grp.get_new_group_path(nm, [prev])
            a = prev
        out.append(a)
    out.append(Sink(name=f'{tag}_sink', upstream=[prev]))
    return out


def make_spares(rng, tag):
    """A small self-contained set of assets (a two-device line, a scheduler, a periodic sensor)."""
    from simprocesd.model.factory_floor import Source, Sink, ActionScheduler, Maintainer
    from simprocesd.model.sensors import PeriodicSensor, AttributeProbe
    src = Source(name=f'{tag}_src', cycle_time=0.5)
    out = [src, Sink(name=f'{tag}_sink', upstream=[src])]
    if rng.random() < 0.6:
        out.append(ActionScheduler([(0.5, 'x'), (0.25, 'y')], name=f'{tag}_sched'))
    if rng.random() < 0.6:
        out.append(PeriodicSensor(0.5, [AttributeProbe('name', src)], name=f'{tag}_sensor'))
    if rng.random() < 0.4:
        out.append(Maintainer(name=f'{tag}_maintainer'))
    return out


class Spawner:
    """Scheduler action that creates further assets the first time it runs - i.e. during the scheduler's start-up
    round, which for a pre-created scheduler happens INSIDE the initialisation pass of the first simulate()."""

    def __init__(self, rng, out, depth=None, level=1):
        self.rng, self.out, self.done = rng, out, False
        self.depth = depth if depth is not None else rng.choice([1, 1, 2, 3])
        self.level = level

    def __call__(self, scheduler, obj, time, state):
        if self.done:
            return
        self.done = True
        from simprocesd.model.factory_floor import ActionScheduler, PartHandler, Maintainer
        from simprocesd.model.sensors import PeriodicSensor, AttributeProbe
        if self.level < self.depth:
            # one level deeper: the assets under test are created by the start-up action of a scheduler that was
            # itself created by a start-up action
            nxt = ActionScheduler([(1, 'on'), (1, 'off')], name=f'spawner_level_{self.level + 1}')
            nxt.register_object(nxt, Spawner(self.rng, self.out, self.depth, self.level + 1))
            self.out.append(nxt)
            return
        self.out.append(ActionScheduler([(0.5, 'x'), (0.75, 'y')], name='spawned_scheduler'))
        self.out.append(PartHandler(name='spawned_handler', cycle_time=0.5))
        self.out.append(PeriodicSensor(0.5, [AttributeProbe('name', obj)], name='spawned_sensor'))
        self.out.append(Maintainer(name='spawned_maintainer'))


def sequence_case(sh, i):
    from simprocesd.model import System
    from simprocesd.model.factory_floor import PartHandler, PartProcessor, Asset, PartFlowController
    seed = core.stable_int(sh.seed, 'C20seq', i)
    rng = random.Random(seed)
    case = {'engine': 'sequence', 'seed': seed}
    instrument.install()
    lc = Lifecycle(sh, case)
    bus = instrument.Bus(ties.make_policy(rng.choice(['prng', 'fifo', 'lifo']), seed % 1000))
    bus.attach(lc)
    worked = 0
    try:
        with instrument.use_bus(bus):
            systems = [System()]
            mine = {0: make_assets(rng, 'a', rng.randint(1, 5))}
            if rng.random() < 0.1:
                # scale: several hundred assets in one system (ids pass powers of ten, long registries)
                for k in range(rng.choice([20, 60])):
                    mine[0].extend(make_assets(rng, f'big{k}', 6))
                sh.count('sequences_with_hundreds_of_assets')
            nsys = rng.choice([1, 2, 2, 3])
            simulated = set()
            spares = []
            for k in range(1, nsys):
                if rng.random() < 0.5:
                    # a system that has already run is superseded afterwards
                    systems[-1].simulate(rng.choice([1, 2.5]), print_summary=False)
                    simulated.add(systems[-1])
                elif rng.random() < 0.6:
                    # assets built under a System that is replaced before it ever runs; the user hands them to the
                    # active System later with System.add_asset()
                    spares.append(make_spares(rng, f'spare{k}'))
                systems.append(System())
                mine[k] = make_assets(rng, 'bcd'[k - 1], rng.randint(1, 5))
            newest = systems[-1]
            handed = []

            def hand_over(group, twice):
                for a in group:
                    lc.hand_over(a, newest)
                    if twice:
                        lc.hand_over(a, newest)
                handed.append((group, newest.env.now))
            hand_when = {n: rng.choice(['before', 'before', 'event', 'between']) for n in range(len(spares))}
            for n, group in enumerate(spares):
                if hand_when[n] == 'before':
                    hand_over(group, rng.random() < 0.3)
            # the kept object of an older System that never ran is copied (or pickled and loaded) while the newest
            # System is active: that must not touch the newest System's registry
            old_unrun = [s_ for s_ in systems[:-1] if s_ not in simulated]
            if old_unrun and rng.random() < 0.5:
                import copy
                import pickle
                victim = rng.choice(old_unrun)
                try:
                    if rng.random() < 0.5:
                        pickle.loads(pickle.dumps(victim))
                        sh.count('older_systems_pickled_and_loaded')
                    else:
                        raise pickle.PicklingError('deepcopy instead')
                except Exception:
                    copy.deepcopy(victim)
                    sh.count('older_systems_deep_copied')
            spawned = []
            if rng.random() < 0.5:
                from simprocesd.model.factory_floor import ActionScheduler
                sp = ActionScheduler([(1, 'on'), (1, 'off')], name='spawner')
                sp.register_object(sp, Spawner(rng, spawned))
                mine.setdefault('spawner', []).append(sp)
            # a superseded system must refuse to simulate
            for s in systems[:-1]:
                t_before = s.env.now
                try:
                    s.simulate(1, print_summary=False)
                    lc.fail('superseded_system_simulated', 'an older System (%s) simulated although a newer one exists'
                            % ('which had already run' if s in simulated else 'which had never run'))
                except RuntimeError:
                    sh.count('superseded_system_rejected')
                    if s in simulated:
                        sh.count('superseded_after_running_rejected')
                    if s.env.now != t_before:
                        lc.fail('superseded_system_simulated', 'the rejected System advanced its clock')
            late = []
            nested = []
            zombies = set()

            def failed_creation():
                """A construction the library refuses (it raises): the caller catches it and carries on.  Whatever
                the library registered for it is remembered and left out of the look-up comparisons."""
                from simprocesd.model.factory_floor import ActionScheduler
                from simprocesd.model.sensors import PeriodicSensor, AttributeProbe
                before = {id(a) for a in newest.find_assets()}
                try:
                    if rng.random() < 0.5:
                        PeriodicSensor(-1, [AttributeProbe('name', newest)], name='bad_sensor')
                    else:
                        ActionScheduler([(-1, 'x')], name='bad_scheduler')
                    sh.count('invalid_late_assets_accepted')
                except (ValueError, AssertionError, TypeError):
                    sh.count('late_constructions_refused')
                zombies.update(id(a) for a in newest.find_assets() if id(a) not in before)

            def create_late():
                if rng.random() < 0.35:
                    failed_creation()
                late.extend(make_assets(rng, 'late', rng.randint(1, 4)))
                # a user station that builds its own monitor when it is initialised - created while the simulation runs,
                # so its initialisation (and the nested construction) happens inside its constructor
                from simprocesd.model.factory_floor import PartHandler as _PH, Maintainer as _Mt

                class StationWithCrew(_PH):
                    def initialize(self, env):
                        super().initialize(env)
                        if not hasattr(self, 'crew'):
                            self.crew = _Mt(name=f'{self.name}_crew')
                st_ = StationWithCrew(name='late_station_with_crew', cycle_time=0.5)
                late.append(st_)
                nested.append((st_, getattr(st_, 'crew', None)))
            create_late.__name__ = 'create_late'
            runs = rng.choice([1, 2, 3])
            if 'between' in hand_when.values() and runs == 1:
                runs = 2
            for r in range(runs):
                if rng.random() < 0.6:
                    newest.env.schedule_event(newest.env.now + rng.choice([0, 0.5, 1.25]), -2, create_late, 6)
                if r == 0:
                    for n, group in enumerate(spares):
                        if hand_when[n] == 'event':
                            def hand_late(group=group, twice=rng.random() < 0.3):
                                hand_over(group, twice)
                            newest.env.schedule_event(rng.choice([0, 0.5, 1.25]), -2, hand_late, 6)
                newest.simulate(rng.choice([2, 3.5, 5]), print_summary=False)
                simulated.add(newest)
                if r == 0:
                    for n, group in enumerate(spares):
                        if hand_when[n] == 'between':
                            hand_over(group, rng.random() < 0.3)
                if r + 1 < runs and rng.random() < 0.5:
                    if rng.random() < 0.35:
                        failed_creation()
                    mine.setdefault('between', []).extend(make_assets(rng, f'btw{r}', rng.randint(1, 3)))
            lc.final(simulated)
            for a in spawned:
                sh.count('assets_created_during_the_initialisation_pass')
                if a.env is None:
                    lc.fail('initialise_count', f'{type(a).__name__} {a.name}, created by another asset\'s start-up action '
                            f'during the initialisation pass of the first simulate(), was never initialised')
                elif hasattr(a, 'current_state') and a.current_state is None:
                    lc.fail('initialise_count', f'scheduler {a.name} created during the initialisation pass never started')
            # find_assets vs. brute force over the creation log
            # assets handed to the newest System behave like its own from then on
            for group, t_hand in handed:
                sink = group[1]
                if newest.env.now - t_hand >= 2 and sink.received_parts_count < 1:
                    lc.fail('handed_over_assets_idle', f'a source -> sink pair handed to the active System with '
                            f'System.add_asset() at {t_hand!r} has delivered {sink.received_parts_count} parts by '
                            f'{newest.env.now!r} (source cycle time 0.5)')
                elif newest.env.now - t_hand >= 2:
                    sh.count('handed_over_lines_that_worked')
            pool = [a for a, s_ in lc.registrations if s_ is newest]
            for st_, crew in nested:
                sh.count('late_assets_whose_initialisation_creates_an_asset')
                if crew is None or crew.env is not newest.env or not any(a is crew for a in newest.find_assets()):
                    lc.fail('late_not_initialised', f'the asset created by the initialisation of late station {st_.name} '
                            f'(itself created while the simulation runs) is not registered and initialised')
            ids_ = {}
            for a in pool:
                if a.id in ids_ and ids_[a.id] is not a:
                    lc.fail('asset_ids_not_unique', f'{type(a).__name__} {lc.name_of(a)!r} and {type(ids_[a.id]).__name__} '
                            f'{lc.name_of(ids_[a.id])!r}, both registered with the active System, have the same id {a.id}: '
                            f'find_assets(id_={a.id}) cannot return exactly one of them')
                    break
                ids_[a.id] = a
            names = sorted({lc.name_of(a) for a in pool})
            for _ in range(12):
                q = {}
                if rng.random() < 0.5:
                    q['name'] = rng.choice(names + ['nope'])
                    if '' in names and rng.random() < 0.5:
                        q['name'] = ''
                if rng.random() < 0.3:
                    # (the number as a user would have it - typed in, parsed from a default name - not the very
                    # int object the asset holds)
                    q['id_'] = int(str(rng.choice(pool).id))
                if rng.random() < 0.4:
                    q['type_'] = rng.choice([PartHandler, PartProcessor, type(rng.choice(pool))])
                if rng.random() < 0.4:
                    q['subtype'] = rng.choice([PartHandler, PartFlowController, Asset, PartProcessor])
                got = [a for a in newest.find_assets(**q) if id(a) not in zombies]
                want = [a for a in pool if ('name' not in q or lc.name_of(a) == q['name'])
                        and ('id_' not in q or a.id == q['id_'])
                        and ('type_' not in q or type(a) is q['type_'])
                        and ('subtype' not in q or isinstance(a, q['subtype']))]
                if len(got) != len(want) or any(x is not y for x, y in zip(got, want)):
                    lc.fail('find_assets', f'find_assets({ {k: getattr(v, "__name__", v) for k, v in q.items()} }) returned '
                            f'{[a.name for a in got]}, brute force over the constructor calls (name given, or '
                            f'<class>_<id> when none was) {[lc.name_of(a) for a in want]}')
                    break
                sh.count('find_assets_queries')
            # the result of a look-up is the caller's: changing it must not change the registry
            res = newest.find_assets()
            pool = [a for a in res if id(a) in zombies][:0] + pool      # (unchanged; zombies may sit anywhere in res)
            n_reg = len(res)
            res.append(None)
            res.pop(0)
            again = newest.find_assets()
            if len(again) != n_reg or any(a is None for a in again) or (pool and again[0] is not pool[0]):
                lc.fail('find_assets', f'modifying the list returned by find_assets() changed the registry: '
                        f'{n_reg} assets before, {len(again)} after')
            sh.count('find_assets_queries')
            d = newest.simulation_data
            for a in late:
                nm = getattr(a, 'name', None)
                if len(d.get('received_part', {}).get(nm, [])) or len(d.get('schedule_update', {}).get(nm, [])) > 1 \
                        or (hasattr(a, 'data') and any(len(v) for v in a.data.values())) \
                        or getattr(a, 'produced_parts', 0):
                    worked += 1
                    sh.count('late_assets_that_worked')
    except Exception as e:
        import traceback
        sh.violation('lifecycle_crash', f'{type(e).__name__}: {e} {traceback.format_exc()[-1200:]}', case,
                     engine='sequence')
    sh.case_done({'seq': seed}, worked > 0, sample={'scenario': 'sequence', 'seed': seed,
                                                   'assets_created': len(lc.created), 'late_worked': worked})


def run_late_path(sh, sp, variant, case):
    """source -> M1 -> [path through a shared group] -> sink, the path and its sink appearing at t.
    'late': path and sink are created at t (from an event, or between two simulate() calls);
    'blocked': the same route exists from the start with the path's input blocked, and is unblocked at t -
    a different mechanism (block_input) that must give the same flow of parts."""
    from simprocesd.model import System
    from simprocesd.model.factory_floor import Source, PartHandler, PartProcessor, Buffer, Group, Sink
    instrument.install()
    lc = Lifecycle(sh, case)
    bus = instrument.Bus(ties.make_policy('fifo', 0))
    bus.attach(lc)
    with instrument.use_bus(bus):
        system = System()
        src = Source(name='src', cycle_time=sp['src_ct'])
        if sp['m1'] == 'buffer':
            m1 = Buffer(name='M1', upstream=[src], capacity=sp['m1_cap'])
        elif sp['m1'] == 'processor':
            m1 = PartProcessor(name='M1', upstream=[src], cycle_time=sp['m1_ct'])
        else:
            m1 = PartHandler(name='M1', upstream=[src], cycle_time=sp['m1_ct'])
        member = PartHandler(name='member', cycle_time=sp['member_ct'])
        grp = Group('cell', [member])
        if sp['other_path']:
            # the cell is already used by another route (its entry station may be busy at t)
            src2 = Source(name='src2', cycle_time=sp['src2_ct'])
            p2 = grp.get_new_group_path('other', [src2])
            Sink(name='sink2', upstream=[p2], cycle_time=sp['sink2_ct'])
        made = {}

        def attach():
            made['path'] = grp.get_new_group_path('route', [m1])
            made['sink'] = Sink(name='sink', upstream=[made['path']], cycle_time=sp['sink_ct'])
        attach.__name__ = 'attach_route'

        def unblock():
            made['path'].block_input = False
        unblock.__name__ = 'unblock_route'
        t = sp['t']
        if variant == 'blocked':
            attach()
            made['path'].block_input = True
        if sp['between']:
            system.simulate(t, print_summary=False)
            (attach if variant == 'late' else unblock)()
            system.simulate(sp['horizon'] - t, print_summary=False)
        else:
            system.env.schedule_event(t, -2, attach if variant == 'late' else unblock, 6)
            system.simulate(sp['horizon'], print_summary=False)
        lc.final({system})
    rec = system.simulation_data.get('received_part', {})
    out = {name: [r[0] for r in rec.get(name, [])] for name in ('M1', 'member', 'sink', 'sink2')}
    out['sink_count'] = made['sink'].received_parts_count
    return out, lc


def late_path_case(sh, i):
    seed = core.stable_int(sh.seed, 'C20path', i)
    rng = random.Random(seed)
    sp = {'src_ct': rng.choice([0.5, 1, 2]), 'm1': rng.choice(['handler', 'processor', 'buffer']),
          'm1_ct': rng.choice([0, 0.5, 1]), 'm1_cap': rng.choice([1, 2, 4]),
          'member_ct': rng.choice([0, 0.5, 1, 2]), 'sink_ct': rng.choice([0, 0.5, 1]),
          'other_path': rng.random() < 0.5, 'src2_ct': rng.choice([0.5, 1, 3]), 'sink2_ct': rng.choice([0, 1]),
          't': rng.randrange(1, 120) / 8.0, 'between': rng.random() < 0.5, 'horizon': 30.0}
    case = {'engine': 'late_path', 'spec': sp}
    try:
        a, lca = run_late_path(sh, sp, 'late', case)
        b, lcb = run_late_path(sh, sp, 'blocked', case)
    except Exception as e:
        import traceback
        sh.violation('late_creation_crash', f'{type(e).__name__}: {e} {traceback.format_exc()[-1200:]}', case,
                     engine='late_path')
        sh.case_done({'path': seed}, False)
        return
    if not (lca.failed or lcb.failed):
        if a != b:
            k = next(n for n in a if a[n] != b[n])
            sh.violation('late_twin_differs', f'a route through a shared cell created at {sp["t"]} '
                         f'({"between two runs" if sp["between"] else "from an event"}) differs from the same route '
                         f'built before the start and unblocked at that instant: {k}: {a[k]} vs {b[k]}', case,
                         engine='late_path')
        else:
            sh.count('late_path_twins_equal')
            if a['sink_count']:
                sh.count('late_paths_that_delivered')
    sh.case_done({'path': seed}, a['sink_count'] > 0, sample={'scenario': 'late_path', 'spec': sp,
                                                             'delivered': a['sink_count']})


class MultiSim:
    """The simulation function handed to System.simulate_multiple_times (in-process runs)."""

    def __init__(self, seed, made):
        self.seed, self.made = seed, made
        self.__name__ = 'multi_sim'

    def __call__(self, system, index):
        rng = random.Random(self.seed * 31 + index)
        self.made.append((system, make_assets(rng, f'm{index}', rng.randint(1, 3))))
        if rng.random() < 0.8:
            system.simulate(rng.choice([1, 2.5, 4]), print_summary=False)


def worker_sim(system, index):
    """The simulation function of a study run in worker processes."""
    from simprocesd.model.factory_floor import Source, Sink
    src = Source(name=f'w{index}_src', cycle_time=1)
    Sink(name=f'w{index}_sink', upstream=[src])
    system.simulate(3, print_summary=False)


def multi_case(sh, i):
    """System creations hidden inside System.simulate_multiple_times(..., max_processes=0): afterwards the most
    recently created System is the last one it returned - new assets belong to it, only it can simulate."""
    from simprocesd.model import System
    from simprocesd.model.factory_floor import PartHandler
    seed = core.stable_int(sh.seed, 'C20multi', i)
    rng = random.Random(seed)
    case = {'engine': 'multi', 'seed': seed}
    instrument.install()
    lc = Lifecycle(sh, case)
    bus = instrument.Bus(ties.make_policy(rng.choice(['prng', 'fifo', 'lifo']), seed % 1000))
    bus.attach(lc)
    try:
        with instrument.use_bus(bus):
            before = None
            simulated = set()
            if rng.random() < 0.7:
                before = System()
                make_assets(rng, 'own', rng.randint(1, 3))
                if rng.random() < 0.5:
                    before.simulate(rng.choice([1, 2]), print_summary=False)
                    simulated.add(before)
            wrng = random.Random(seed ^ 0x5a5a5a)
            if before is not None and wrng.random() < 0.3:
                # a study of one or two replications run in worker processes: no System is created in this process, so
                # the caller's own System stays the active one
                nw = wrng.choice([1, 1, 2])
                res = System.simulate_multiple_times(worker_sim, nw, wrng.choice([1, 2]))
                hw = PartHandler(name='after_worker_runs')
                if len(res) != nw or hw not in before.find_assets() or any(hw in r_.find_assets() for r_ in res):
                    lc.fail('not_registered', f'an asset created after simulate_multiple_times(.., {nw}, max_processes>0) is '
                            f'not registered with the caller\'s own System, which no System created in this process replaced')
                else:
                    try:
                        before.simulate(0.5, print_summary=False)
                        simulated.add(before)
                        sh.count('own_system_continued_after_a_study_in_worker_processes')
                    except RuntimeError as e:
                        lc.fail('newest_system_refused', f'the caller\'s own System refused to simulate after '
                                f'simulate_multiple_times(.., {nw}, max_processes>0), which creates no System in this '
                                f'process: {e}')
            made = []
            n = rng.choice([1, 2, 3])
            systems = System.simulate_multiple_times(MultiSim(seed, made), n, 0)
            if len(systems) != n or any(a is not b[0] for a, b in zip(systems, made)):
                lc.fail('multi_run_systems', f'simulate_multiple_times(.., {n}, 0) returned {len(systems)} systems; the '
                        f'simulation function was handed {len(made)}')
            for s_ in systems:
                if s_._simulation_is_initialized:
                    simulated.add(s_)
            newest = systems[-1]
            # an asset created now belongs to the most recently created System
            h = PartHandler(name='after_multi')
            if h not in newest.find_assets() or any(h in s_.find_assets() for s_ in systems[:-1]) \
                    or (before is not None and h in before.find_assets()):
                lc.fail('not_registered', 'an asset created after simulate_multiple_times(.., 0) is not registered with '
                        'the most recently created System (the last one returned)')
            if newest in simulated and h.env is None:
                lc.fail('late_not_initialised', 'an asset created after simulate_multiple_times(.., 0) for a System that '
                        'has already run was not initialised at once')
            for s_ in ([before] if before is not None else []) + systems[:-1]:
                try:
                    s_.simulate(1, print_summary=False)
                    lc.fail('superseded_system_simulated', 'a System older than the last one created by '
                            'simulate_multiple_times(.., 0) simulated')
                except RuntimeError:
                    sh.count('superseded_system_rejected')
            if not lc.failed:
                try:
                    newest.simulate(1.5, print_summary=False)
                    simulated.add(newest)
                    sh.count('newest_system_of_a_multi_run_continued')
                except RuntimeError as e:
                    lc.fail('newest_system_refused', f'the most recently created System (last of the in-process multi '
                            f'run) refused to simulate: {e}')
            if not lc.failed:
                lc.final(simulated)
    except Exception as e:
        import traceback
        sh.violation('lifecycle_crash', f'{type(e).__name__}: {e} {traceback.format_exc()[-1200:]}', case,
                     engine='multi')
    sh.case_done({'multi': seed}, True, sample={'scenario': 'multi', 'seed': seed, 'assets_created': len(lc.created)})


def run(sh):
    n = 510 if sh.tier == 'quick' else 90000
    n_multi = 160 if sh.tier == 'quick' else 16000
    for i in sh.share(n + n_multi):
        k = i % 3
        if i >= n:
            if i % 2:
                multi_case(sh, i)
            else:
                late_path_case(sh, i)
        elif k == 0 and (i // 3) % 2:
            generated_subline_case(sh, i)
        elif k == 0:
            subline_case(sh, i)
        elif k == 1:
            branch_case(sh, i)
        else:
            sequence_case(sh, i)


def replay(sh, v):
    case = v['case']
    e = case.get('engine')
    if e == 'subline':
        spec, t = case['spec'], case['t_create']
        early, lc1, _ = run_subline(sh, spec, None, case)
        late, lc2, _ = run_subline(sh, spec, t, case)
        if early != late:
            sh.violation('late_twin_differs', first_diff(early, late), case, engine='subline')
    elif e == 'branch':
        a, _, _ = run_branch(sh, case['spec'], case['branch'], case['t_attach'], 'late', case)
        b, _, _ = run_branch(sh, case['spec'], case['branch'], case['t_attach'], 'pre', case)
        if a != b:
            sh.violation('late_twin_differs', first_diff(a, b), case, engine='branch')
    elif e == 'late_path':
        a, _ = run_late_path(sh, case['spec'], 'late', case)
        b, _ = run_late_path(sh, case['spec'], 'blocked', case)
        if a != b:
            sh.violation('late_twin_differs', f'{a} vs {b}', case, engine='late_path')
    else:
        print('sequence scenarios are replayed by seed: VERIF_SEED and the case index')
