"""C05 - buffer contract: capacity, level, FIFO order and minimum delay."""
from .. import engine_line

SPEC = {
    'level': 'exploration',
    'rule': ('generated buffer-centred lines (1-3 producers incl. batch sources and batchers, consumers that are '
             'busy / failing / blocked / resource-starved, capacities 1-8 / unbounded, delays 0-2, mixed single '
             'parts and batches) under 4 tie-break policies; after EVERY event each buffer is checked: stored '
             'leaf parts <= capacity, level() == stored leaf parts, departures are a prefix of the stored order, '
             'no departure before arrival + minimum delay (== on the dyadic grid; a second leg with decimal, not exactly representable times and a 4-ulp tolerance); a case is one model; '
             'non-trivial = a buffer was full at least once and a head part waited for its downstream; also: rework loops buffer -> gate -> same buffer, user-defined Batch subclasses, deciders failing in the middle of a multi-part release, long-history models'),
    'floors': {'quick': {'buffer_checks': 50000, 'buffer_departures': 3000,
                         'buffer_departures_after_waiting_for_downstream': 500, 'decimal_buffer_departures': 2000},
               'thorough': {'buffer_checks': 1000000, 'buffer_departures': 100000,
                            'buffer_departures_after_waiting_for_downstream': 10000}},
    'assumptions': ['times on the dyadic grid: the delay comparison is exact'],
    'timeout_s': {'quick': 900, 'thorough': 7200},
}
MONITORS = ('buffers',)


def nontrivial(f):
    return f.get('buffer_full', 0) > 0 and f.get('buffer_waited', 0) > 0


def run(sh):
    n = 400 if sh.tier == 'quick' else 60000
    engine_line.run_profile(sh, 'C05', 'buffers', n * 3 // 4, MONITORS, nontrivial)
    engine_line.run_profile(sh, 'C05', 'blocking', n // 4, MONITORS, nontrivial)
    from ..modelgen import DECIMAL
    engine_line.run_profile(sh, 'C05', 'buffers', n // 2, MONITORS, nontrivial, prefix='decimal_', overrides=DECIMAL,
                            tag='decimal')

    # generators that re-use one scratch list for every Batch, in front of a PartBatcher that unpacks it
    from .. import core, modelgen
    pol = ['prng', 'fifo', 'lifo', 'const']
    for i in sh.share(max(16, n // 10)):
        seed = core.stable_int(sh.seed, 'C05', 'scratch', i) % (1 << 40)
        engine_line.run_spec(sh, 'C05', modelgen.generate_scratch_batches(seed, pol[i % 4]), MONITORS, nontrivial,
                             prefix='scratch_')
    # batches whose contents change between two buffers (a finish callback adds a hand-made part)
    engine_line.run_profile(sh, 'C05', 'buffers', n // 4, MONITORS, nontrivial, prefix='inserts_',
                            overrides={'p_insert': 0.6, 'p_value_cb': 0, 'p_batch_source': 0.9,
                                       'stage_w': {'buffer': 6, 'processor': 4, 'batcher': 1}}, tag='inserts')
    # user code (a gate's decider) failing in the middle of a multi-part release; the caller carries on
    for i in sh.share(max(24, n // 10)):
        seed = core.stable_int(sh.seed, 'C05', 'errbuf', i) % (1 << 40)
        engine_line.run_spec(sh, 'C05', modelgen.generate_error_buffer(seed, pol[i % 4]), MONITORS, nontrivial,
                             prefix='error_path_')
    # scale: more than a thousand parts released by one buffer in one event
    for i in sh.share(2 if sh.tier == 'quick' else 12):
        engine_line.run_spec(sh, 'C05', modelgen.generate_mass_release(i, pol[i % 4]), MONITORS, nontrivial,
                             prefix='mass_release_')
    conwip_leg(sh, core, modelgen, pol)


def conwip_leg(sh, core, modelgen, pol):
    # constant work in progress: the station behind a buffer feeds a hand-made job into that buffer from its receive
    # callback, i.e. Buffer.give_part nested in the buffer's own release; hundreds of releases per model
    for i in sh.share(24 if sh.tier == 'quick' else 600):
        seed = core.stable_int(sh.seed, 'C05', 'conwip', i) % (1 << 40)
        engine_line.run_spec(sh, 'C05', modelgen.generate_conwip(seed, pol[i % 4]), MONITORS, nontrivial,
                             prefix='conwip_')


def replay(sh, v):
    engine_line.replay_case(sh, 'C05', v['case'], MONITORS)
