"""C08 - routing fidelity: parts follow the configured routes and their history says so."""
from .. import engine_line

SPEC = {
    'level': 'exploration',
    'rule': ('generated routing-heavy lines (fan-out / fan-in, complementary and total gates, groups of 1-3 devices '
             'shared by 1-3 paths, direct path -> path re-entrance, nested groups with the inner path last or '
             'followed by a device, batches through gates and groups, block toggles on schedules, congestion) '
             'under 4 tie-break policies; after EVERY event the routing history of every live leaf part whose '
             'history changed (and of every part a sink received) is replayed as a walk in the route graph of the '
             'SPECIFICATION with a path stack (entry, exit through the innermost path), must end at the current '
             'holder and imply exactly the part\'s open-path stack; each new gate entry needs a True evaluation of '
             'that gate\'s predicate in the same event; no entry into a device whose input was blocked before and '
             'after the event; sinks collect in arrival order; idle-longest rule judged for direct plain '
             'single-slot candidates when unambiguous; a case is one model; non-trivial = a part left a group '
             'and a hand-over was refused somewhere before succeeding; also: the idle-longest rule through plain pass-through devices and restarting at restoration, decimal and near-tie fan-out models, flag predicates edited in place, rework loops, refused connection changes, shutdown callbacks that fail once'),
    'floors': {'quick': {'histories_validated': 20000, 'group_exits': 300, 'idle_longest_judged': 1000,
                         'gate_passages_checked': 1000, 'collected_lists_checked': 5000},
               'thorough': {'histories_validated': 400000, 'group_exits': 6000, 'idle_longest_judged': 20000,
                            'gate_passages_checked': 20000, 'collected_lists_checked': 100000}},
    'assumptions': ['gate predicates are pure functions of the part',
                    'a PartBatcher is never inside a group; group members are wired before the group exists'],
    'timeout_s': {'quick': 900, 'thorough': 7200},
}
MONITORS = ('routing',)


def nontrivial(f):
    return f.get('group_exits', 0) > 0


def run(sh):
    n = 400 if sh.tier == 'quick' else 60000
    engine_line.run_profile(sh, 'C08', 'routing', n * 3 // 4, MONITORS, nontrivial)
    engine_line.run_profile(sh, 'C08', 'general', n // 4, MONITORS, nontrivial)
    # collecting sinks whose collected_parts list is replaced by a fresh one between two runs or from an event
    engine_line.run_profile(sh, 'C08', 'routing', n // 4, MONITORS, nontrivial, prefix='fresh_lists_',
                            overrides={'p_new_collected': 0.9, 'p_collect': 1.0, 'p_split': 0.7}, tag='freshlists')
    # fan-out models aimed at the idle-longest rule
    from .. import core, modelgen
    pol = ['prng', 'fifo', 'lifo', 'const']
    for i in sh.share(n // 2):
        seed = core.stable_int(sh.seed, 'C08', 'fanout', i) % (1 << 40)
        spec = modelgen.generate_fanout(seed, pol[i % 4])
        engine_line.run_spec(sh, 'C08', spec, MONITORS, lambda f: f.get('idle_judged', 0) > 0)
    # a station taken out of the line and put back: its gate leads nowhere meanwhile and refuses what it is offered
    for i in sh.share(max(32, n // 5)):
        seed = core.stable_int(sh.seed, 'C08', 'deadend', i) % (1 << 40)
        engine_line.run_spec(sh, 'C08', modelgen.generate_dead_end(seed, pol[i % 4]), MONITORS,
                             lambda f: f.get('histories', 0) > 0, prefix='dead_end_')
    # the same with one-decimal cycle times: idle-since instants one unit in the last place apart
    for i in sh.share(n // 4):
        seed = core.stable_int(sh.seed, 'C08', 'fanout_decimal', i) % (1 << 40)
        spec = modelgen.generate_fanout(seed, pol[i % 4], decimal=True)
        engine_line.run_spec(sh, 'C08', spec, MONITORS, lambda f: f.get('idle_judged', 0) > 0, prefix='decimal_')


    ncomb = len(modelgen.near_tie_combos())
    for i in sh.share(ncomb * (8 if sh.tier == 'quick' else 32)):
        engine_line.run_spec(sh, 'C08', modelgen.generate_near_tie(i, pol[i % 4]), MONITORS,
                             lambda f: f.get('idle_judged', 0) > 0, prefix='near_tie_')


def replay(sh, v):
    engine_line.replay_case(sh, 'C08', v['case'], MONITORS)
