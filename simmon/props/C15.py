"""C15 - recorded simulation data mirrors what actually happened."""
import os
import shutil
import tempfile

from .. import engine_line

SPEC = {
    'level': 'exploration',
    'rule': ('generated lines containing every recording asset kind (buffers, pools, processors with failures, '
             'sources, sinks with batches, maintainer orders), a third of them with the event trace enabled on '
             'some of their runs (HOME redirected to a scratch directory); at the moment of each record: time == '
             'now and (part id, quality, value) == the part\'s; after EVERY event: last level record == level(), '
             'last resource_update == (usage, capacity), number of received / produced / supplied / failure / '
             'enter_queue / start / finish records == occurrences seen on an independent channel (callbacks, '
             'census departures, dispatched _fail actions, accepted create_work_order calls, target hooks), '
             'device counters == records; after each traced run the exported JSON == the dispatch log; a case is '
             'one model; non-trivial = at least 7 different record labels occurred; also: statistics discarded in place between two runs, pools shared by holders of one-decimal amounts'),
    'floors': {'quick': {'record_count_checks': 50000, 'record_content_checks': 10000, 'level_record_checks': 20000,
                         'resource_record_checks': 20000, 'traced_runs': 30, 'trace_entries_compared': 5000},
               'thorough': {'record_count_checks': 1000000, 'record_content_checks': 200000,
                            'level_record_checks': 400000, 'resource_record_checks': 400000, 'traced_runs': 600,
                            'trace_entries_compared': 100000}},
    'assumptions': ['schedule_update records are judged by C18\'s own engine'],
    'timeout_s': {'quick': 900, 'thorough': 7200},
}
MONITORS = ('records',)


def nontrivial(f):
    return f.get('labels', 0) >= 7


def with_home(fn):
    home = tempfile.mkdtemp(prefix='simmon_home_', dir='/tmp')
    os.makedirs(os.path.join(home, 'Downloads'))
    old = os.environ.get('HOME')
    os.environ['HOME'] = home
    try:
        fn()
    finally:
        if old is None:
            os.environ.pop('HOME', None)
        else:
            os.environ['HOME'] = old
        shutil.rmtree(home, ignore_errors=True)


def run(sh):
    n = 300 if sh.tier == 'quick' else 50000
    with_home(lambda: engine_line.run_profile(sh, 'C15', 'records', n, MONITORS, nontrivial))
    # batches edited in place (Batch.parts) by a receive callback of the buffer that is taking them in
    with_home(lambda: engine_line.run_profile(
        sh, 'C15', 'records', n // 4, MONITORS, nontrivial, prefix='trimmed_batches_', tag='trim',
        overrides={'p_trim': 0.6, 'p_batch_source': 0.95, 'stage_w': {'buffer': 6, 'processor': 2, 'handler': 2,
                                                                      'batcher': 1}}))
    # pools shared by several holders of one-decimal amounts (0.1 + 0.2 - 0.1 - 0.2 leaves rounding dust in the usage)
    with_home(lambda: engine_line.run_profile(
        sh, 'C15', 'records', n // 3, MONITORS, nontrivial, prefix='decimal_pools_', tag='decpools',
        overrides={'res_amounts': [0.1, 0.2, 0.2, 0.7, 0.3], 'p_resources': 1.0, 'res_cap': (1, 1),
                   'n_resources': (1, 1), 'n_sources': (2, 3), 'n_stages': (3, 6),
                   'stage_w': {'processor': 8, 'buffer': 2, 'handler': 1}}))


def replay(sh, v):
    with_home(lambda: engine_line.replay_case(sh, 'C15', v['case'], MONITORS))
