"""Line engine: builds a generated model, runs it through the real event
queue with the instrumentation bus active and a set of monitors attached."""
import re
import traceback

from . import build as build_mod
from . import core, instrument, modelgen, ties
from .census import Census


def PROBE_GUARD():
    return instrument.PROBING


class BudgetExceeded(Exception):
    pass


class CaseAbort(Exception):
    """Raised by the engine when a monitor has reported and going on is pointless."""


# exception -> property that owns the mechanism (C03 takes everything else)
ATTRIBUTION = [
    (r'Input part is missing|Output part slot is already full|Invalid PartHandler state', ('C06', 'C13')),
    (r'trying to exit Group|RecursionError|maximum recursion', 'C08'),
    (r'Trying to release|did not reserve any', 'C11'),
    (r'library calls inside one event \(in (_check_pending_requests|_can_fulfill_request)', 'C10'),
    (r'library calls inside one event \(in (try_working_requests|_is_work_order_requested)', 'C12'),
]


class Progress:
    """Logical budgets: events per run and events without the clock advancing."""

    def __init__(self, ctx, max_events):
        self.ctx = ctx
        self.max_events = max_events
        self.total = 0
        self.at_instant = 0
        self.instants = 0

    def before_advance(self, env, t):
        self.at_instant = 0
        self.instants += 1

    def before_step(self, env, head):
        self.total += 1
        self.at_instant += 1
        if self.total > self.max_events:
            raise BudgetExceeded(f'more than {self.max_events} events in one run')
        if self.at_instant > 100000:
            raise BudgetExceeded(f'more than 100000 events at instant {env.now} without the clock advancing')


class LineRun:
    def __init__(self, sh, prop, spec, monitor_names, prefix=''):
        self.sh = sh
        self.prop = prop
        self.spec = spec
        self.prefix = prefix
        self.monitor_names = monitor_names
        self.case = {'engine': 'line', 'spec': spec}
        self.failed = False
        self.model = None
        self.census = None
        self.prev_census = None
        self.monitors = []
        self.events = 0
        self.crash = None

    # -- services for monitors -----------------------------------------------
    def report(self, monitor, msg, witness=None):
        self.failed = True
        w = {'now': self.model.env.now if self.model else None}
        if witness:
            w.update(witness)
        self.sh.violation(monitor, msg, self.case, witness=w, engine='line')

    def count(self, key, n=1):
        self.sh.count(self.prefix + key, n)

    def dev_id(self, obj):
        return self.model.id_of.get(id(obj))

    # -- bus hooks -----------------------------------------------------------------
    def after_event(self, env, head):
        self.events += 1
        self.prev_census = self.census
        self.census = Census(self.model)
        for m in self.monitors:
            f = getattr(m, 'on_event', None)
            if f is not None:
                f(env, head)
        if self.failed:
            raise CaseAbort()

    def run_begin(self, env, t0, d):
        # the state right after initialisation is an event boundary too (a zero-cycle source has
        # already produced its first part by then)
        if self.model is None or PROBE_GUARD():
            return
        self.prev_census = self.census
        self.census = Census(self.model)
        for m in self.monitors:
            f = getattr(m, 'on_event', None)
            if f is not None:
                f(env, None)
        if self.failed:
            raise CaseAbort()

    def before_advance(self, env, t):
        for m in self.monitors:
            f = getattr(m, 'on_quiescent', None)
            if f is not None:
                f(env, t)
        if self.failed:
            raise CaseAbort()

    # -- execution -----------------------------------------------------------------------
    def execute(self):
        from .monitors import REGISTRY
        instrument.install()
        spec = self.spec
        self.bus = bus = instrument.Bus(ties.make_policy(spec.get('tie', 'prng'), spec.get('seed', 0)))
        status = 'ok'
        with instrument.use_bus(bus):
            # monitors that must see every event from its creation on (the script events are
            # scheduled while the model is built) are attached first
            for name in self.monitor_names:
                if getattr(REGISTRY[name], 'early', False):
                    mon = REGISTRY[name](self)
                    self.monitors.append(mon)
                    bus.attach(mon)
            try:
                self.model = build_mod.build(spec, bus)
            except Exception:
                self.sh.count(self.prefix + 'build_errors')
                self.sh.notes.append('build error: ' + traceback.format_exc()[-1200:])
                return 'build_error'
            self.progress = Progress(self, spec.get('max_events', 20000))
            bus.attach(self.progress)
            names = list(self.monitor_names)
            if spec.get('observe') and 'observer' not in names:
                names.append('observer')        # (a workload, not an oracle: a nosy user reading every getter)
            for name in names:
                if getattr(REGISTRY[name], 'early', False):
                    continue
                mon = REGISTRY[name](self)
                self.monitors.append(mon)
                bus.attach(mon)
            bus.attach(self)        # last: census + on_event fan-out
            self.census = Census(self.model)
            try:
                self.poke()
                for op in spec.get('pre') or []:
                    with instrument.external(bus):
                        build_mod.ScriptAction(self.model.world, op, self.model.log)()
                    self.count('operations_before_first_run')
                traces = spec.get('trace') or []
                for k, d in enumerate(spec['horizon']):
                    tr = bool(traces[k]) if k < len(traces) else False
                    t_before = self.model.env.now
                    self.simulate_to(d, tr)
                    if self.prop == 'C01' and self.model.env.now != t_before + d and not self.failed:
                        self.report('run_window', f'System.simulate({d!r}) called at {t_before!r} ended with the clock at '
                                    f'{self.model.env.now!r}, expected {t_before + d!r}')
                        raise CaseAbort()
                    if self.prop == 'C01' and not self.failed:
                        from simprocesd.model.simulation import EventType
                        left = [e for e in self.model.env._events if not e.cancelled and e.time <= t_before + d
                                and e.event_type > EventType.TERMINATE]
                        if left:
                            e = left[0]
                            self.report('run_window', f'System.simulate({d!r}) called at {t_before!r} returned with '
                                        f'{len(left)} live event(s) due inside its window still pending, e.g. time '
                                        f'{e.time!r} priority {e.event_type!r} {instrument.action_name(e.action)}')
                            raise CaseAbort()
                        self.count('system_level_window_checks')
                        if d == 0:
                            self.count('zero_length_runs')
                    # the end of a run is a quiescent point too
                    self.before_advance(self.model.env, None)
                    gaps = spec.get('between') or []
                    if k < len(gaps) and k + 1 < len(spec['horizon']):
                        for op in gaps[k]:
                            try:
                                with instrument.external(bus):
                                    build_mod.ScriptAction(self.model.world, op, self.model.log)()
                            except build_mod.HarnessError:
                                self.count('user_code_exceptions_caught_and_continued')
                            self.count('operations_between_runs')
                            # every operation issued from outside is a boundary of its own (two of them may
                            # cancel out, e.g. shutdown then restore)
                            self.run_begin(self.model.env, self.model.env.now, 0)
                for m in self.monitors:
                    f = getattr(m, 'on_end', None)
                    if f is not None:
                        f()
            except CaseAbort:
                status = 'violation'
            except (BudgetExceeded, instrument.CallBudgetExceeded) as e:
                status = 'budget'
                self.crash = ('budget', str(e), '')
            except RecursionError as e:
                status = 'crash'
                self.crash = ('RecursionError', 'RecursionError: ' + str(e)[:200], traceback.format_exc()[-2500:])
            except Exception as e:
                status = 'crash'
                self.crash = (type(e).__name__, f'{type(e).__name__}: {e}', traceback.format_exc()[-2500:])
        self.count('events', self.events)
        if status in ('crash', 'budget') and not self.failed:
            self.judge_crash()
        return status

    def simulate_to(self, d, tr):
        """System.simulate(d); when user code of the workload fails inside an event (HarnessError), the caller
        catches the exception and carries on to the same end instant."""
        import contextlib
        import io
        env = self.model.env
        t_end = env.now + d
        caught = 0
        for _ in range(100):
            try:
                if caught:
                    with contextlib.redirect_stdout(io.StringIO()):
                        self.model.system.simulate(t_end - env.now, trace=tr, print_summary=False)
                else:
                    self.model.system.simulate(d, trace=tr, print_summary=False)
                # (a run cut short by an exception leaves its end marker behind; a later run stops there)
                if not caught or env.now >= t_end:
                    return
            except build_mod.HarnessError:
                caught += 1
                self.count('user_code_exceptions_caught_and_continued')

    def poke(self):
        """Pre-start perturbation: add_value before the first simulate is expected to raise (no
        environment yet) and whatever it changed must be reset by initialisation."""
        self.poked = []
        for did in self.spec.get('poke', []):
            dev = self.model.devs.get(did)
            if dev is None:
                continue
            try:
                dev.add_value('poke', 7.5)
                self.poked.append((did, 'accepted'))
            except Exception as e:
                self.poked.append((did, type(e).__name__))

    def judge_crash(self):
        kind, msg, tb = self.crash
        owner = ('C03',)
        for pat, prop in ATTRIBUTION:
            if re.search(pat, msg) or re.search(pat, kind):
                owner = prop if isinstance(prop, tuple) else (prop,)
        if self.prop in owner or self.prop == 'C03':
            self.report('crash' if kind != 'budget' else 'no_bounded_progress',
                        f'well-posed model did not run to its horizon: {msg}', {'traceback': tb})
        else:
            self.count('crashed_cases_owned_by_' + '_'.join(owner))

    def features(self):
        f = {}
        for m in self.monitors:
            g = getattr(m, 'features', None)
            if g is not None:
                f.update(g())
        return f


def brief(spec):
    kinds = {}
    for it in spec['items']:
        kinds[it['kind']] = kinds.get(it['kind'], 0) + 1
    ops = {}
    for e in spec.get('script', []):
        ops[e['op']] = ops.get(e['op'], 0) + 1
    return {'devices': kinds, 'script_ops': ops, 'resources': spec.get('resources'),
            'horizon': spec['horizon'], 'tie': spec.get('tie'), 'seed': spec.get('seed'),
            'profile': spec.get('profile')}


def run_profile(sh, prop, profile, n_models, monitors, nontrivial=None, prefix='', tie_policies=None,
                overrides=None, tag=None):
    """Run this shard's share of n_models generated models."""
    tie_policies = tie_policies or ['prng', 'fifo', 'lifo', 'const']
    for i in sh.share(n_models):
        seed = core.stable_int(sh.seed, prop, profile, tag, i) % (1 << 40)
        tie = tie_policies[i % len(tie_policies)]
        ov = overrides
        if sh.tier == 'thorough' and i % 4 == 3:
            # a quarter of the thorough tier: larger models, longer horizons, more sources
            ov = dict(overrides or {})
            ov.setdefault('n_stages', (6, 12))
            ov.setdefault('horizon', (60, 150))
            ov.setdefault('n_sources', (2, 4))
            ov['max_events'] = 60000
            sh.count(prefix + 'large_models')
        elif i % 25 == 7 and i < 1500:
            # long histories on small models: hundreds to thousands of parts, cycles and records
            ov = dict(overrides or {})
            ov.setdefault('n_stages', (1, 3))
            ov.setdefault('n_sources', (1, 1))
            ov['horizon'] = (400, 1200)
            ov['script_rate'] = 0.04
            ov['budget'] = [None, None, 1500, 700]
            ov['p_collect'] = 0.0           # (sinks that keep every part make each deep-copying probe ever slower)
            ov['max_events'] = 200000
            sh.count(prefix + 'long_history_models')
        # (C01 judges run windows: a run cut short by an exception leaves its end marker behind and later runs stop
        # there - user code that fails is therefore kept out of C01's lines)
        spec = modelgen.generate(seed, profile, tie=tie, overrides=ov, catching=(prop != 'C01'))
        if ov and ov.get('max_events') == 200000:
            spec['long'] = True
        run_spec(sh, prop, spec, monitors, nontrivial, prefix)


def run_spec(sh, prop, spec, monitors, nontrivial=None, prefix=''):
    r = LineRun(sh, prop, spec, monitors, prefix)
    status = r.execute()
    if status == 'build_error':
        return r
    f = r.features()
    for k, v in f.items():
        if isinstance(v, bool):
            if v:
                sh.count(prefix + 'feat:' + k)
        elif isinstance(v, (int, float)) and v:
            sh.count(prefix + 'feat:' + k + '>0')
    nt = bool(nontrivial(f)) if nontrivial else True
    for it in spec['items']:
        sh.count(prefix + 'kind:' + it['kind'])
    sh.count(prefix + 'tie:' + spec.get('tie', 'prng'))
    sh.count(prefix + 'status:' + status)
    case_key = {'engine': 'line', 'profile': spec.get('profile'), 'seed': spec.get('seed'),
                'tie': spec.get('tie'), 'n_items': len(spec['items'])}
    sh.case_done(case_key, nt, sample={'model': brief(spec), 'events': r.events, 'features': f})
    return r


def replay_case(sh, prop, case, monitors):
    run_spec(sh, prop, case['spec'], monitors)
