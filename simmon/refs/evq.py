"""Executable reference model of the event queue, run as an online monitor.

The model is a pair of sets (pending, paused) of *shadow events* maintained
only from what crosses the Environment's API boundary (schedule / pause /
unpause / cancel calls and dispatches) with the semantics of the property
statements:

  * dispatch takes a pending event whose (time, -priority) is minimal - any
    member of the arg-min set is accepted, so the oracle does not depend on
    the random tie-break weights;
  * pause(a) withholds exactly the pending events of asset a; unpause(a)
    re-inserts each at original time + (now - paused_at); cancel(a) marks the
    pending and paused events of a, whose actions then never run (they keep
    their queue slot and advance the clock when popped, as the code does);
  * an action runs at most once, never while paused, never when cancelled.

Monitor names are mapped to the property that owns them (C01 / C07).
"""
import math

OWNER = {
    'order': 'C01', 'queue_sorted': 'C01', 'clock_eq_event_time': 'C01', 'clock_monotone': 'C01',
    'reject_past': 'C01', 'at_most_once': 'C01', 'run_window': 'C01', 'queue_membership': 'C01',
    'action_not_run': 'C01', 'action_before_its_time': 'C01',
    'paused_dispatched': 'C07', 'resume_time': 'C07', 'cancelled_ran': 'C07',
    'other_event_time_changed': 'C07', 'pause_scope': 'C07', 'unpause_scope': 'C07',
    'cancel_scope': 'C07',
    'copy_pending_events': 'C01', 'copy_paused_events': 'C07',
}


class SEv:
    __slots__ = ('ev', 'serial', 'asset', 'time', 'prio', 'cancelled', 'paused_at', 'calls',
                 'ever_paused', 'name', 'created_in', 'shifted')

    def __init__(self, ev, serial):
        self.ev = ev
        self.serial = serial
        self.asset = ev.asset_id
        self.time = ev.time
        self.prio = ev.event_type
        self.cancelled = False
        self.paused_at = None
        self.calls = 0
        self.ever_paused = False
        self.shifted = False
        self.name = None
        self.created_in = None

    def key(self):
        return (self.time, -self.prio)

    def brief(self):
        return {'serial': self.serial, 'asset': self.asset, 'time': self.time, 'prio': float(self.prio),
                'action': self.name, 'cancelled': self.cancelled, 'paused_at': self.paused_at}


class CountingAction:
    """Replaces Event.action so that the monitor sees whether the action ran.
    Keeps `.func` so that the library's trace code still finds the name."""
    __slots__ = ('sev', 'orig', 'func', 'mon')

    def __init__(self, sev, orig, mon):
        self.sev = sev
        self.orig = orig
        self.func = getattr(orig, 'func', orig)
        self.mon = mon

    def __call__(self):
        self.mon.action_called(self.sev)
        return self.orig()

    def __deepcopy__(self, memo):
        import copy
        return copy.deepcopy(self.orig, memo)

    # library code that compares an event's action with one of its own methods sees the wrapped action
    def __eq__(self, other):
        return self.orig == (other.orig if isinstance(other, CountingAction) else other)

    def __ne__(self, other):
        return not self.__eq__(other)

    def __hash__(self):
        return hash(self.orig)


class QueueMonitor:
    def __init__(self, report, count, exact=True, wrap_actions=True, owner=None):
        """report(monitor, msg, witness); count(key, n=1).
        exact: times are on the dyadic grid -> resume times compared with ==,
        otherwise within 4 ulp."""
        self.report = report
        self.count = count
        self.exact = exact
        self.wrap_actions = wrap_actions
        self.pending = {}    # id(ev) -> SEv
        self.paused = {}
        self.prev_now = None
        self.head = None
        self.tie_groups = 0
        self.nested_insertions = 0
        self.shifted_resumes = 0
        self.nonzero_resumes = 0
        self.bus = None
        self.owner = owner
        self.dead = False     # after the first discrepancy the model is out of sync

    # -- helpers -------------------------------------------------------------
    def fail(self, name, msg, **w):
        if self.dead:
            return
        self.dead = True
        self.report(name, msg, w)

    def close(self, a, b, now):
        if self.exact:
            return a == b
        return abs(a - b) <= 4 * math.ulp(max(abs(now), abs(a), 1e-300))

    # -- instrumentation callbacks ---------------------------------------------
    def event_created(self, ev):
        from ..instrument import action_name
        s = SEv(ev, ev.h_serial)
        s.name = action_name(ev.action)
        ev.h_sev = s
        self.pending[id(ev)] = s
        if self.bus is not None and self.bus.in_event is not None:
            self.nested_insertions += 1
            s.created_in = getattr(self.bus.in_event, 'h_serial', None)
        if self.wrap_actions:
            ev.action = CountingAction(s, ev.action, self)

    def schedule_call(self, env, time, asset_id, action, event_type, exc):
        self.count('schedule_calls')
        now = env.now
        if exc is not None:
            if isinstance(exc, ValueError) and not (time < now):
                self.fail('reject_past', f'schedule_event(time={time!r}) at now={now!r} raised {exc!r} '
                          'although the time is not in the past')
            elif isinstance(exc, ValueError):
                self.count('past_rejected')
        else:
            if time < now:
                self.fail('reject_past', f'schedule_event(time={time!r}) accepted at now={now!r}')

    def action_called(self, s):
        if self.dead:
            return
        s.calls += 1
        if s.calls > 1:
            self.fail('at_most_once', f'action of event {s.brief()} ran {s.calls} times')
        if s.cancelled:
            self.fail('cancelled_ran', f'action of cancelled event {s.brief()} ran')
        if id(s.ev) in self.paused:
            self.fail('paused_dispatched', f'action of paused event {s.brief()} ran')
        if self.head is not s:
            self.fail('order', f'action of event {s.brief()} ran outside its own dispatch '
                      f'(dispatching {self.head.brief() if self.head else None})')

    def queue_call(self, env, name, asset_id, phase):
        if self.dead:
            return
        now = env.now
        if phase == 'before':
            return
        if name == 'pause_matching_events':
            self.count('pause_calls')
            if asset_id is not None:
                for k, s in list(self.pending.items()):
                    if s.asset == asset_id:
                        del self.pending[k]
                        s.paused_at = now
                        s.ever_paused = True
                        self.paused[k] = s
                        self.count('events_paused')
            self.compare_sets(env, 'pause_scope', f'after pause({asset_id}) at {now}')
        elif name == 'unpause_matching_events':
            self.count('unpause_calls')
            if asset_id is not None:
                for k, s in list(self.paused.items()):
                    if s.asset == asset_id:
                        del self.paused[k]
                        want = s.time + (now - s.paused_at)
                        got = s.ev.time
                        if want < now:
                            self.count('resumes_rounding_below_now')
                        if not self.close(got, want, now):
                            self.fail('resume_time', f'event {s.brief()} paused at {s.paused_at!r}, resumed at '
                                      f'{now!r}: re-inserted at {got!r}, expected {want!r}')
                            return
                        if got < now and self.owner != 'C01':
                            # (under C01 the run continues: the clock-monotonicity check sees
                            # the consequence when the event is dispatched)
                            self.fail('resume_time', f'event {s.brief()} resumed at {now!r} was re-inserted '
                                      f'in the past at {got!r}')
                            return
                        if now > s.paused_at:
                            self.shifted_resumes += 1
                            s.shifted = True
                            if s.paused_at > 0:
                                self.nonzero_resumes += 1
                                self.count('resumes_nonzero_pause_nonzero_time')
                        self.count('events_resumed')
                        s.time = got
                        s.paused_at = None
                        self.pending[k] = s
            self.compare_sets(env, 'unpause_scope', f'after unpause({asset_id}) at {now}')
        elif name == 'cancel_matching_events':
            self.count('cancel_calls')
            if asset_id is not None:
                hit = []
                for s in list(self.pending.values()) + list(self.paused.values()):
                    if s.asset == asset_id and not s.cancelled:
                        s.cancelled = True
                        hit.append(s)
                        self.count('events_cancelled')
                bus = self.bus
                if hit and bus is not None and bus.in_event is None and bus.external_depth == 0:
                    # nobody asked for this: no event is running and the caller is not the user.  The library
                    # (run() / simulate()) removed live events on its own, so the run will not execute them.
                    self.fail('run_window', f'{len(hit)} live event(s) of asset {asset_id} were cancelled by the '
                              f'library itself while starting a run (not by the user, not by an event): '
                              f'{[x.brief() for x in hit[:2]]}')
                    return
            self.compare_sets(env, 'cancel_scope', f'after cancel({asset_id}) at {now}')

    def compare_sets(self, env, name, where):
        real_p = {id(e) for e in env._events}
        real_q = {id(e) for e in env._paused_events}
        if real_p != set(self.pending) or real_q != set(self.paused):
            def brief(ids, tbl):
                return [tbl[i].brief() if i in tbl else i for i in ids]
            allk = dict(self.pending)
            allk.update(self.paused)
            self.fail(name, f'{where}: real queue and model disagree: '
                      f'only-real-pending={brief(real_p - set(self.pending), allk)} '
                      f'only-model-pending={brief(set(self.pending) - real_p, allk)} '
                      f'only-real-paused={brief(real_q - set(self.paused), allk)} '
                      f'only-model-paused={brief(set(self.paused) - real_q, allk)}')
            return False
        for e in env._events + env._paused_events:
            s = e.h_sev
            if e.time != s.time and id(e) in self.pending:
                self.fail('other_event_time_changed', f'{where}: event {s.brief()} now has time {e.time!r}')
                return False
            if e.cancelled != s.cancelled:
                self.fail(name if name != 'queue_membership' else 'cancel_scope',
                          f'{where}: event {s.brief()} real cancelled flag = {e.cancelled}')
                return False
        return True

    def before_step(self, env, head):
        if self.dead or head is None:
            return
        self.prev_now = env.now
        self.count('dispatches_checked')
        evs = env._events
        # cross-check: the real list is sorted by (time, -priority)
        for i in range(len(evs) - 1):
            a, b = evs[i], evs[i + 1]
            if (a.time, -a.event_type) > (b.time, -b.event_type):
                self.fail('queue_sorted', f'real queue not sorted at index {i}: '
                          f'({a.time!r},{a.event_type!r}) before ({b.time!r},{b.event_type!r})')
                return
        if not self.compare_sets(env, 'queue_membership', f'before dispatch at {env.now!r}'):
            return
        s = getattr(head, 'h_sev', None)
        if s is None or id(head) not in self.pending:
            if s is not None and id(head) in self.paused:
                self.fail('paused_dispatched', f'paused event {s.brief()} is being dispatched')
            else:
                self.fail('queue_membership', f'dispatching an event the model does not know: {head}')
            return
        kmin = min(x.key() for x in self.pending.values())
        if s.key() != kmin:
            better = [x.brief() for x in self.pending.values() if x.key() == kmin][:3]
            self.fail('order', f'dispatching {s.brief()} while {better} is due earlier / has higher priority')
            return
        group = [x for x in self.pending.values() if x.key() == kmin and not x.cancelled]
        if len(group) >= 2:
            self.tie_groups += 1
            self.count('tie_groups')
        # the event leaves the queue before its action runs (as in the code:
        # a pause/cancel issued by the action does not affect the running event)
        del self.pending[id(head)]
        self.head = s

    def after_event(self, env, head):
        if self.dead or head is None:
            return
        s = self.head
        if s is None:
            return
        now = env.now
        if now != s.time:
            self.fail('clock_eq_event_time', f'clock {now!r} after dispatching event due at {s.time!r}')
            return
        if self.prev_now is not None and now < self.prev_now:
            self.fail('clock_monotone', f'clock went back from {self.prev_now!r} to {now!r} '
                      f'(event {s.brief()})')
            return
        if self.wrap_actions:
            if s.cancelled:
                self.count('cancelled_popped')
                if s.calls:
                    self.fail('cancelled_ran', f'cancelled event {s.brief()} ran')
            elif s.calls != 1:
                self.fail('action_not_run' if s.calls == 0 else 'at_most_once',
                          f'live event {s.brief()} dispatched, action ran {s.calls} times')
            else:
                self.count('actions_run')
                if s.shifted:
                    self.count('shifted_events_executed')
        self.head = None
