"""Independent max-plus reference for a serial line (blocking after service).

stations: list of dicts, index 0 = source, last = sink:
   source  {'kind':'source','ct':c,'budget':n|None}
   handler/processor {'kind':..,'ct':c}                (capacity 1)
   buffer  {'kind':'buffer','cap':K|None,'delay':d}
   sink    {'kind':'sink','ct':c}                      (capacity 1, frees its slot c after receipt)
Returns E[j] = list of entry times of parts 1..  into station j (j>=1) and D0 = departure
times from the source, for all parts whose times are <= horizon.  Exact (Fractions).
"""
from fractions import Fraction as F

INF = None


def reference(stations, horizon):
    n = len(stations)
    H = F(horizon)
    cap = []
    svc = []
    for s in stations:
        if s['kind'] == 'buffer':
            cap.append(s.get('cap'))
            svc.append(F(s.get('delay', 0)))
        else:
            cap.append(1)
            svc.append(F(s['ct']))
    budget = stations[0].get('budget')
    # top-ups of a finite budget: [(T, m)]: m more parts may be supplied from instant T on
    release = []
    if budget is not None:
        release = [F(0)] * int(budget // 1)         # a non-integral budget covers its whole parts only
        for T, m in sorted(stations[0].get('topups') or []):
            release += [F(T)] * m
        budget = len(release)
    # D[j][k] = departure time of part k (1-based) from station j; the sink's "departure" is
    # the instant its slot is free again
    D = [[] for _ in range(n)]
    k = 0
    while budget is None or k < budget:
        k += 1
        row = []
        for j in range(n):
            if j == 0:
                ready = (D[0][k - 2] if k >= 2 else F(0)) + svc[0]
                if release and release[k - 1] > ready:
                    ready = release[k - 1]      # made, but not covered by the budget before this instant
            else:
                ready = row[j - 1] + svc[j]
            t = ready
            if k >= 2 and D[j][k - 2] > t:          # FIFO / single slot: after the previous part
                t = D[j][k - 2]
            if j + 1 < n:
                K = cap[j + 1]
                if K is not None and k - K >= 1:
                    # station j+1 has room for part k only when part k-K has left it
                    prev = D[j + 1][k - K - 1]
                    if prev > t:
                        t = prev
            row.append(t)
        # D(j+1, k-K) for the current k may refer to rows already complete: yes (k-K < k)
        if row[0] > H:
            break
        for j in range(n):
            D[j].append(row[j])
        if k > 200000:
            raise RuntimeError('reference does not terminate (Zeno line?)')
    E = {}
    for j in range(1, n):
        E[j] = [t for t in D[j - 1] if t <= H]
    D0 = [t for t in D[0] if t <= H]
    return E, D0, D
