"""Entry point:  python -m simmon.run <Cxx> [quick|thorough] [--replay f]
              python -m simmon.run --shard <Cxx> <tier> <seed> <idx> <n>
"""
import importlib
import os
import sys

from . import core


def prop_module(prop):
    return importlib.import_module(f'simmon.props.{prop}')


def main(argv):
    if argv and argv[0] == '--shard':
        prop, tier, seed, idx, n = argv[1], argv[2], int(argv[3]), int(argv[4]), int(argv[5])
        mod = prop_module(prop)
        core.run_shard(prop, tier, seed, idx, n, mod.run)
        return 0
    prop = argv[0]
    mod = prop_module(prop)
    if '--replay' in argv:
        path = argv[argv.index('--replay') + 1]
        return core.run_replay(prop, path, mod.replay)
    tier = os.environ.get('VERIF_TIER', 'quick')
    if len(argv) > 1 and argv[1] in ('quick', 'thorough'):
        tier = argv[1]
    seed = int(os.environ.get('VERIF_SEED', '0'))
    return core.run_parent(prop, tier, seed, mod.SPEC)


if __name__ == '__main__':
    sys.exit(main(sys.argv[1:]))
