"""Where is every part?  Snapshot taken between events by walking the
specification's devices (input slot, output slot, buffer entries, batch under
construction; batches flattened to leaves)."""

HOLDER_KINDS = ('source', 'handler', 'processor', 'buffer', 'batcher')


def leaves_of(part):
    parts = getattr(part, 'parts', None)
    if parts is None:
        return [part]
    out = []
    for p in parts:
        out.extend(leaves_of(p))
    return out


def units_of(part):
    """What a device that takes batches apart handles one by one: the direct members of a batch (which may be
    batches themselves), or the part itself."""
    parts = getattr(part, 'parts', None)
    return [part] if parts is None else list(parts)


def descendants_of(part):
    """Everything inside a batch, at every depth (inner batches and their contents)."""
    out = []
    for p in getattr(part, 'parts', None) or []:
        out.append(p)
        out.extend(descendants_of(p))
    return out


class Census:
    __slots__ = ('slots', 'loc', 'dups', 'now', 'oper', 'opaque')

    def __init__(self, model):
        self.slots = {}
        self.loc = {}
        self.dups = []
        self.oper = {}
        self.opaque = False        # a device keeps parts somewhere this snapshot cannot see (its internals changed)
        self.now = model.env.now
        kinds = model.kinds
        for did, dev in model.devs.items():
            k = kinds[did]
            if k == 'sink':
                self.slots[did] = {'in': dev._part, 'out': dev._output}
                continue
            if k not in HOLDER_KINDS:
                continue
            s = {'in': dev._part, 'out': dev._output}
            if k == 'buffer':
                # (the public view of the queue, oldest part first)
                s['buf'] = list(dev.stored_parts)
            elif k == 'batcher':
                # (the batch under construction has no public accessor; if the private attribute is gone, the
                # snapshot says so and nothing that needs it is judged)
                if hasattr(dev, '_in_progress_batch'):
                    s['wip'] = dev._in_progress_batch
                else:
                    self.opaque = True
            elif k == 'processor':
                self.oper[did] = dev.is_operational()
            self.slots[did] = s
            for slot, val in s.items():
                if val is None:
                    continue
                tops = val if slot == 'buf' else [val]
                for idx, top in enumerate(tops):
                    for leaf in leaves_of(top):
                        u = getattr(leaf, 'huid', None)
                        if u is None:
                            u = 'anon:%d' % id(leaf)
                        where = (did, slot)
                        if u in self.loc:
                            self.dups.append((u, self.loc[u], where))
                        else:
                            self.loc[u] = where
