#!/venv/bin/python
"""Regression over the seeded changes: every seeded/<id> must still be caught by the check(s) that caught it
when it was recorded.  tools/reseed.py [--jobs N] [id-prefix ...]"""
import concurrent.futures, json, os, subprocess, sys
VERIF = os.path.dirname(os.path.dirname(os.path.abspath(__file__)))
args = sys.argv[1:]
jobs = 4
if '--jobs' in args:
    jobs = int(args[args.index('--jobs') + 1]); del args[args.index('--jobs'):args.index('--jobs') + 2]
ids = sorted(os.listdir(os.path.join(VERIF, 'seeded')))
if args:
    ids = [i for i in ids if any(i.startswith(a) for a in args)]


def one(sid):
    d = os.path.join(VERIF, 'seeded', sid)
    meta = json.load(open(os.path.join(d, 'meta.json')))
    want = [p for p, r in meta['checks_run'].items() if r['fired']]
    if not want:
        return sid, 'ok (recorded as not judged: ' + meta.get('not_judged_because', '?')[:80] + ')'
    r = subprocess.run([os.path.join(VERIF, 'tools', 'seedcheck.py'), d, ','.join(want)], capture_output=True, text=True)
    try:
        res = json.loads(r.stdout)
    except Exception:
        return sid, 'ERROR ' + (r.stdout + r.stderr)[-300:]
    bad = [p for p in want if not res['props'][p]['fired']]
    extra = '' if res.get('tests', '').startswith('150 passed') else ' tests: ' + res.get('tests', '?')
    return sid, ('ok' if not bad else 'NOT CAUGHT BY ' + ','.join(bad)) + extra


with concurrent.futures.ThreadPoolExecutor(jobs) as ex:
    bad = 0
    for sid, status in ex.map(one, ids):
        print(f'{sid:<60} {status}', flush=True)
        bad += not status.startswith('ok')
print(f'{len(ids)} seeds, {bad} not ok')
