#!/venv/bin/python
"""tools/keepseed.py <src dir (patch.diff, demo.py, README.md)> <seed id> <property> <checks csv> "<needs>"
Copies a confirmed seeded change into /verif/seeded/<id>/ and records what was run."""
import json, os, shutil, subprocess, sys
VERIF = os.path.dirname(os.path.dirname(os.path.abspath(__file__)))
src, sid, prop, checks, needs = sys.argv[1:6]
dst = os.path.join(VERIF, 'seeded', sid)
os.makedirs(dst, exist_ok=True)
for f in ('patch.diff', 'demo.py', 'README.md'):
    if os.path.exists(os.path.join(src, f)) and os.path.abspath(src) != os.path.abspath(dst):
        shutil.copy(os.path.join(src, f), os.path.join(dst, f))
r = subprocess.run([os.path.join(VERIF, 'tools', 'seedcheck.py'), src, checks], capture_output=True, text=True)
res = json.loads(r.stdout)
meta = {'id': sid, 'breaks_property': prop, 'origin': 'independent sub-agent given only the property text and a scratch worktree',
        'needs_to_manifest': needs,
        'confirmed': {'repository_tests_with_change': res['tests'],
                      'demo_exit_unchanged_tree': res.get('demo_clean_rc'),
                      'demo_exit_with_change': res.get('demo_seeded_rc')},
        'checks_run': {p: {'fired': d['fired'], 'exit': d['rc'], 'first_report': d['first']} for p, d in res['props'].items()},
        'how_run': f'tools/seedcheck.py seeded/{sid} {checks}   (patch applied to a scratch copy of /repo/simprocesd; quick tier)'}
json.dump(meta, open(os.path.join(dst, 'meta.json'), 'w'), indent=1)
print(sid, {p: d['fired'] for p, d in res['props'].items()})
