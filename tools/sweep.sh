#!/bin/bash
# tools/sweep.sh <tier> <seed...> : run every check for the given seeds, evidence to a scratch dir,
# print only what is not HELD.
cd "$(dirname "$0")/.." || exit 2
tier=$1; shift
ev=$(mktemp -d /tmp/sweep_ev_XXXX)
for s in "$@"; do
  for p in C01 C02 C03 C04 C05 C06 C07 C08 C09 C10 C11 C12 C13 C14 C15 C16 C17 C18 C19 C20; do
    out=$(SIMMON_EVIDENCE_DIR=$ev VERIF_SEED=$s ./check $p $tier 2>&1)
    if ! echo "$out" | tail -1 | grep -q '^HELD'; then echo "seed=$s $p:"; echo "$out" | grep -v '^  observed' | tail -6 | cut -c1-400; fi
  done
  echo "seed $s done"
done
rm -rf "$ev"
