#!/bin/bash
# tools/evalseed.sh <worktree> <label> <checks csv> : confirm a sub-agent's change and run the given checks against it
d=$1/SEED/$2
/verif/tools/seedcheck.py $d $3 | python3 -c "
import json,sys
r=json.load(sys.stdin)
print('$1 $2', 'tests:', r['tests'], 'demo clean/seeded:', r.get('demo_clean_rc'), r.get('demo_seeded_rc'))
for p,v in r['props'].items(): print('   ', p, 'FIRED' if v['fired'] else 'silent rc=%s'%v['rc'], v['first'][:220])
"
