#!/venv/bin/python
"""Evaluate a seeded change (patch.diff [+ demo.py]) on a scratch copy of /repo:
   - the repository's tests must still pass with it,
   - the demonstration must exit 0 without and non-zero with the change,
   - run the given checks (quick tier by default) against the changed copy.
 tools/seedcheck.py <dir with patch.diff/demo.py> C02[,C03...] [--tier quick|thorough] [--inplace]
 --inplace applies the patch to /repo itself (git apply) and undoes it afterwards.
"""
import os, shutil, subprocess, sys, tempfile, json

VERIF = os.path.dirname(os.path.dirname(os.path.abspath(__file__)))
PY = '/venv/bin/python'


def sh(cmd, **kw):
    return subprocess.run(cmd, capture_output=True, text=True, **kw)


def main():
    d = os.path.abspath(sys.argv[1])
    props = sys.argv[2].split(',')
    tier = 'quick'
    if '--tier' in sys.argv:
        tier = sys.argv[sys.argv.index('--tier') + 1]
    inplace = '--inplace' in sys.argv
    patch = os.path.join(d, 'patch.diff')
    demo = os.path.join(d, 'demo.py')
    res = {'seed': d, 'props': {}}
    if inplace:
        root = '/repo'
        r = sh(['git', '-C', '/repo', 'apply', patch])
        if r.returncode:
            print('patch does not apply:', r.stderr); return 2
    else:
        root = tempfile.mkdtemp(prefix='seedscr_', dir='/tmp')
        shutil.copytree('/repo/simprocesd', os.path.join(root, 'simprocesd'), ignore=shutil.ignore_patterns('__pycache__'))
        if os.path.exists(demo):
            r0 = sh([PY, demo], cwd=root, env=dict(os.environ, PYTHONPATH=root, PYTHONDONTWRITEBYTECODE='1'))
            res['demo_clean_rc'] = r0.returncode
        r = sh(['patch', '-p1', '-i', patch], cwd=root)
        if r.returncode:
            print('patch does not apply:', r.stdout, r.stderr); shutil.rmtree(root); return 2
    try:
        env = dict(os.environ, PYTHONPATH=root, PYTHONDONTWRITEBYTECODE='1')
        t = sh([PY, '-m', 'pytest', '-q', '-p', 'no:cacheprovider', '--timeout=900', 'simprocesd/tests/model'],
               cwd=root, env=env)
        res['tests'] = t.stdout.strip().splitlines()[-1] if t.stdout.strip() else t.stderr[-200:]
        if os.path.exists(demo):
            r1 = sh([PY, demo], cwd=root, env=env)
            res['demo_seeded_rc'] = r1.returncode
            res['demo_out'] = (r1.stdout + r1.stderr)[-300:]
        cenv = dict(os.environ, SIMPROCESD_REPO=root, PYTHONDONTWRITEBYTECODE='1')
        if not inplace:
            cenv['SIMMON_EVIDENCE_DIR'] = os.path.join(root, 'ev')
        else:
            cenv['SIMMON_EVIDENCE_DIR'] = tempfile.mkdtemp(prefix='seedev_', dir='/tmp')
        for p in props:
            c = sh([os.path.join(VERIF, 'check'), p, tier], env=cenv)
            lines = [l for l in c.stdout.splitlines() if l.startswith('  ') and not l.startswith('  observed')]
            res['props'][p] = {'rc': c.returncode, 'fired': c.returncode == 1 and 'VIOLATION property=' in c.stdout,
                               'first': lines[0].strip()[:300] if lines else c.stdout.strip().splitlines()[-1][:300]}
        if inplace:
            shutil.rmtree(cenv['SIMMON_EVIDENCE_DIR'], ignore_errors=True)
    finally:
        if inplace:
            sh(['git', '-C', '/repo', 'checkout', '--', '.'])
        else:
            shutil.rmtree(root, ignore_errors=True)
    print(json.dumps(res, indent=1))


if __name__ == '__main__':
    sys.exit(main())
