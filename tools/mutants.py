#!/venv/bin/python
"""Monitor validation: apply one catalogued change at a time to a scratch copy
of the library (outside /repo and /verif), run the repository's own tests on it
(does the change survive them?) and the quick tier of the properties expected
to notice it; report fired / silent.  Development aid, not a registered check.

  tools/mutants.py [--tests] [--props C01,C07] [--jobs N] [id ...]
"""
import json, os, shutil, subprocess, sys, tempfile, concurrent.futures

HERE = os.path.dirname(os.path.abspath(__file__))
VERIF = os.path.dirname(HERE)
REPO = os.environ.get('SIMPROCESD_REPO', '/repo')


def apply(m, root):
    path = os.path.join(root, m['file'])
    s = open(path).read()
    n = s.count(m['old'])
    if n != 1:
        return f'snippet matches {n} times'
    open(path, 'w').write(s.replace(m['old'], m['new']))
    return None


def run_one(m, with_tests, props_filter, tier):
    scratch = tempfile.mkdtemp(prefix='simmon_mut_', dir='/tmp')
    try:
        shutil.copytree(os.path.join(REPO, 'simprocesd'), os.path.join(scratch, 'simprocesd'),
                        ignore=shutil.ignore_patterns('__pycache__'))
        edits = m.get('edits') or [m]
        for e in edits:
            err = apply(e, scratch)
            if err:
                return {'id': m['id'], 'error': err}
        res = {'id': m['id'], 'props': {}}
        env = dict(os.environ, SIMPROCESD_REPO=scratch, SIMMON_EVIDENCE_DIR=os.path.join(scratch, 'ev'),
                   PYTHONDONTWRITEBYTECODE='1')
        if with_tests:
            p = subprocess.run(['/venv/bin/python', '-m', 'pytest', '-q', '-x', '-p', 'no:cacheprovider',
                                '--timeout=900', 'simprocesd/tests/model'],
                               cwd=scratch, env=dict(env, PYTHONPATH=scratch), capture_output=True, text=True)
            tail = p.stdout.strip().splitlines()[-1] if p.stdout.strip() else ''
            res['tests'] = 'pass' if p.returncode == 0 else 'FAIL: ' + tail
        for prop in m['props']:
            if props_filter and prop not in props_filter:
                continue
            p = subprocess.run([os.path.join(VERIF, 'check'), prop, tier], env=env, capture_output=True,
                               text=True)
            mon = [l.strip() for l in p.stdout.splitlines() if l.startswith('  ') and ':' in l
                   and not l.startswith('  observed')]
            res['props'][prop] = {'rc': p.returncode,
                                  'fired': p.returncode == 1 and 'VIOLATION property=' in p.stdout,
                                  'first': mon[0][:200] if mon else
                                  (p.stdout.strip().splitlines()[-1][:200] if p.stdout.strip() else p.stderr[-300:])}
        return res
    finally:
        shutil.rmtree(scratch, ignore_errors=True)


def main():
    args = sys.argv[1:]
    with_tests = '--tests' in args
    props_filter = None
    jobs = 4
    tier = 'quick'
    ids = []
    i = 0
    while i < len(args):
        a = args[i]
        if a == '--props':
            props_filter = set(args[i + 1].split(',')); i += 1
        elif a == '--jobs':
            jobs = int(args[i + 1]); i += 1
        elif a == '--tier':
            tier = args[i + 1]; i += 1
        elif not a.startswith('--'):
            ids.append(a)
        i += 1
    cat = json.load(open(os.path.join(HERE, 'mutants.json')))
    if ids:
        cat = [m for m in cat if m['id'] in ids]
    if props_filter:
        cat = [m for m in cat if set(m['props']) & props_filter]
    out = []
    with concurrent.futures.ThreadPoolExecutor(jobs) as ex:
        for r in ex.map(lambda m: run_one(m, with_tests, props_filter, tier), cat):
            out.append(r)
            if 'error' in r:
                print(f"{r['id']:<28} ERROR {r['error']}")
                continue
            t = r.get('tests', '-')
            for prop, d in r['props'].items():
                print(f"{r['id']:<28} tests={t:<6} {prop} {'FIRED ' if d['fired'] else 'silent rc=%d' % d['rc']} {d['first']}")
            sys.stdout.flush()
    silent = [(r['id'], p) for r in out if 'props' in r for p, d in r['props'].items() if not d['fired']]
    print(f'\n{len(out)} mutants; silent: {silent}')


if __name__ == '__main__':
    main()
