#!/venv/bin/python
"""Regenerates MANIFEST.json from the property modules that exist."""
import importlib, json, os, sys
HERE = os.path.dirname(os.path.abspath(__file__))
VERIF = os.path.dirname(HERE)
sys.path.insert(0, VERIF)
props = [json.loads(l) for l in open(os.path.join(VERIF, 'properties.jsonl'))]

TECH = {
 'C01': 'runtime monitoring: online reference queue model (shadow pending/paused sets fed from the Environment API boundary) over enumerated + random operation sequences and whole generated lines',
 'C02': 'runtime monitoring: census of every generated part after every executed event (conservation invariant) over generated lines with fault scripts',
 'C03': 'runtime monitoring: quiescent-instant probe (offer every ready part to its downstream neighbours on a deep copy with the real give_part) at every clock advance + logical event budgets',
 'C04': 'runtime monitoring: recorded arrival times vs. independent max-plus reference recurrence (exact, Fraction) over random serial lines and tie policies',
 'C05': 'runtime monitoring: per-event buffer invariants (capacity, level, FIFO, minimum delay) from census transitions; level() as read inside the buffer\'s own receive callbacks',
 'C06': 'runtime monitoring: per-event operational-time accounting of every cycle (accept/finish/lose transitions, down intervals) vs. cycle time in effect',
 'C07': 'runtime monitoring: online reference queue model over exhaustive short + random long pause/resume/cancel sequences at non-zero times',
 'C08': 'runtime monitoring: routing-history walk against the route graph of the specification, group path stack reconstruction, idle-longest oracle, after every event; histories as read inside receive callbacks',
 'C09': 'runtime monitoring: dictionary reference model stepped next to the real ResourceManager, state compared after every operation (exhaustive short + random long sequences)',
 'C10': 'runtime monitoring: callback invocation log vs. waiting-request rules (exactly once, in order, only when feasible, none feasible left at clock advance)',
 'C11': 'runtime monitoring: per-event invariants on processor holdings vs. requirements and pool usage, idle-holder check at clock advance',
 'C12': 'runtime monitoring: maintainer reference model fed with the observed request stream; sets of orders started per instant, durations, hooks, costs',
 'C13': 'runtime monitoring: per-event state machine + exact uptime/utilisation integrals + callback logs under dense fault scripts',
 'C14': 'runtime monitoring: differential runs (same seed twice, split vs. unsplit under keyed tie-breaks, in-process vs. worker processes) compared after id normalisation',
 'C15': 'runtime monitoring: recorded data vs. live state and independent occurrence channels after every event; exported trace vs. dispatch log',
 'C16': 'runtime monitoring: value identities (asset history, source/sink/maintainer/batch/system sums) after every event and as read inside start_work and generator hooks',
 'C17': 'runtime monitoring: leaf-part sequences up- and downstream of every batcher, emitted batch sizes, acceptance state, after every event',
 'C18': 'runtime monitoring: action log and state records vs. independently evaluated timetable with a shadow registry',
 'C19': 'runtime monitoring: sensor data / callbacks vs. independently computed sampling schedule and probed values',
 'C20': 'runtime monitoring: creation/initialisation logs + late-created vs. pre-created twin runs (differential)',
}

checks, na = [], []
for p in props:
    pid = p['id']
    try:
        mod = importlib.import_module(f'simmon.props.{pid}')
    except ImportError:
        na.append({'property_id': pid, 'reason': 'check not built yet (framework under construction; see DESIGN.md section 3)'})
        continue
    spec = mod.SPEC
    checks.append({
        'property_id': pid,
        'quick_cmd': f'./check {pid} quick',
        'thorough_cmd': f'./check {pid} thorough',
        'evidence_file': f'evidence/{pid}.json',
        'replay_cmd_template': f'./check {pid} --replay {{path}}',
        'engine': 'simmon',
        'level_claimed': {
            'category': spec.get('level', 'exploration'),
            'text': spec.get('level_text') or ('Held on the executions the monitors observed (counts in the evidence file): ' + spec['rule']),
            'design_ref': f'DESIGN.md section 3 ({pid})'},
        'level_note': '; '.join(spec.get('assumptions', [])) or 'generated workloads are well-posed (DESIGN 2.8)',
        'technique': TECH[pid],
    })
m = {
 'version': 1,
 'setup_cmd': '/venv/bin/python -c "import simprocesd" && mkdir -p evidence',
 'hooks': {'guard': 'SIMPROCESD_VERIF',
           'enable': 'no source hooks: instrumentation is applied at run time by /verif/simmon/instrument.py (class-attribute wrappers); the guard name is reserved and unused',
           'baseline_off_cmd': 'cd /repo && /venv/bin/python -m pytest -ra -q -p no:cacheprovider --timeout=900 --continue-on-collection-errors',
           'source_commits': [], 'add_only': True},
 'engines': [{'name': 'simmon', 'path': 'simmon/', 'serves_properties': [c['property_id'] for c in checks],
              'kind_free_text': 'runtime monitoring harness: generated workloads + instrumentation bus + per-property monitors / reference models'}],
 'checks': checks,
 'not_applicable': na,
 'notes': 'exit 0 held / 1 VIOLATION / 2 INCONCLUSIVE (never folded); VERIF_SEED and VERIF_TIER honoured; known_findings.txt lists fixed defects (no open findings)',
}
json.dump(m, open(os.path.join(VERIF, 'MANIFEST.json'), 'w'), indent=1)
print(len(checks), 'checks;', len(na), 'not applicable')
